#!/bin/bash
# Re-runs every kept seeded change (seeded/<id>/patch.diff + demo.sh) against the check of the property it breaks, in
# scratch worktrees of /repo HEAD (never touching /repo), 4 at a time. Prints one line per change; exit 1 if one is missed.
VERIF=$(cd "$(dirname "$0")/.." && pwd)
OUTD=$(mktemp -d /tmp/rdm-reverify.XXXXXX)
ls -d "$VERIF"/seeded/C*/ | xargs -n1 basename | xargs -P 4 -I{} bash -c '
  id={}; prop=${id%%-*}; "'$VERIF'"/bin/eval_seeded.sh "'$VERIF'"/seeded/$id $prop > "'$OUTD'"/$id.txt 2>&1'
miss=0
for f in "$OUTD"/*.txt; do id=$(basename $f .txt); prop=${id%%-*}
  rc=$(grep -o "check $prop exit=[0-9]*" $f | grep -o "[0-9]*$")
  ok=$(grep -c -E "apply=ok|passed=158 failed=0|demo_clean=pass|demo_patched=fail" $f)
  echo "$id confirmed=$ok/4 own_check_exit=${rc:-?}"
  if ! { [ "$rc" = 1 ] && [ "$ok" = 4 ]; }; then miss=$((miss+1)); mkdir -p "${REVERIFY_KEEP:-/tmp/rdm-reverify-failed}"; cp $f "${REVERIFY_KEEP:-/tmp/rdm-reverify-failed}/"; fi
done
rm -rf "$OUTD"
echo "missed_or_unconfirmed=$miss"
[ $miss = 0 ]
