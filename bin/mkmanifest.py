#!/usr/bin/env python3
# Generates /verif/MANIFEST.json from the table below (keeps it valid at all times).
import json, os, sys
V = os.path.dirname(os.path.dirname(os.path.abspath(__file__)))
# id -> (technique, level text, level note, design ref)
CHECKS = {}
NA = {}
def chk(id, technique, text, note, ref):
    CHECKS[id] = (technique, text, note, ref)
exec(open(os.path.join(V, "bin", "manifest_table.py")).read())
repo_commits = []
m = {
 "version": 1,
 "setup_cmd": "bin/setup",
 "hooks": {
  "guard": "verif",
  "enable": "bin/check builds the harness with `go test -c -tags verif` (one add-only file, lib/logic/preference-func/electreIII/verif_hooks.go, exposes the ELECTRE III credibility matrix read-only to the C05/C06 monitors); everything else is observed through decorators around the interfaces of main.go's registries and black-box observation of the service. The service binary used by C02/C10/C20 is built WITHOUT the tag.",
  "baseline_off_cmd": "for m in . ./httpClient ./lib; do (cd /repo/$m && GOFLAGS=-mod=mod go test -vet=off -count=1 -timeout 25m ./...) || exit 1; done",
  "source_commits": ["2848265"],
  "add_only": True
 },
 "engines": [{"name": "rdm-harness", "path": "harness/", "serves_properties": sorted(CHECKS),
   "kind_free_text": "Go test binary of package main (real registries of httpClient/main.go) + monitoring decorators, reference-model monitors, history checkers, child-process supervision, Go race detector"}],
 "checks": [],
 "not_applicable": [{"property_id": k, "reason": v} for k, v in sorted(NA.items())],
 "notes": "Every check rebuilds the harness and the service from /repo's working tree in a fresh temp dir (bin/check). Exit 0 held / 1 violation (VIOLATION line + replay file) / 2 inconclusive."
}
for id in sorted(CHECKS):
    t, text, note, ref = CHECKS[id]
    m["checks"].append({
      "property_id": id,
      "quick_cmd": "bin/check %s --tier quick" % id,
      "thorough_cmd": "bin/check %s --tier thorough" % id,
      "evidence_file": "/verif/evidence/%s.json" % id,
      "replay_cmd_template": "bin/check %s --replay {path}" % id,
      "engine": "rdm-harness",
      "level_claimed": {"category": "exploration", "text": text, "design_ref": ref},
      "level_note": note,
      "technique": t,
    })
json.dump(m, open(os.path.join(V, "MANIFEST.json"), "w"), indent=1)
print("MANIFEST.json: %d checks, %d not_applicable" % (len(m["checks"]), len(m["not_applicable"])))
