#!/usr/bin/env python3
# usage: keep_seeded.py <src dir (patch.diff, demo.sh, notes.md)> <seeded id> <property> <eval result file> [note]
# Copies a confirmed seeded change into /verif/seeded/<id>/ and writes meta.json from the eval_seeded.sh output.
import sys, os, shutil, json, re
src, sid, prop, resfile = sys.argv[1:5]
note = sys.argv[5] if len(sys.argv) > 5 else ""
dst = os.path.join("/verif/seeded", sid)
os.makedirs(dst, exist_ok=True)
for f in ("patch.diff", "demo.sh", "notes.md"):
    if os.path.exists(os.path.join(src, f)):
        shutil.copy(os.path.join(src, f), os.path.join(dst, f))
res = open(resfile).read()
checks = {}
for m in re.finditer(r"RESULT check (C\d+) exit=(\d+) :: ?(.*)", res):
    checks[m.group(1)] = {"exit": int(m.group(2)), "first_violation": m.group(3).strip()}
notes = open(os.path.join(src, "notes.md")).read() if os.path.exists(os.path.join(src, "notes.md")) else ""
meta = {
  "id": sid,
  "breaks_property": prop,
  "origin": "independent sub-agent given only the property text and a scratch worktree" if not note.startswith("manual") else "planted by hand to validate the monitor",
  "needs_to_manifest": notes.strip(),
  "confirmed": {
    "applies_to": "/repo HEAD at the time of the pass (see DESIGN.md section 11)",
    "suite": re.search(r"RESULT suite: (.*)", res).group(1) if re.search(r"RESULT suite: (.*)", res) else "",
    "demo_on_unchanged_tree": "pass" if "demo_clean=pass" in res else "?",
    "demo_on_changed_tree": "fail" if "demo_patched=fail" in res else "?",
    "how": "bin/eval_seeded.sh <dir> <checks>: scratch worktree of /repo, git apply patch.diff, 158-test suite, demo.sh before/after, checks with VERIF_REPO=<worktree> (quick tier, seed 1)",
  },
  "checks_run_against_it": checks,
  "caught_by": sorted(k for k, v in checks.items() if v["exit"] == 1),
  "note": note,
}
json.dump(meta, open(os.path.join(dst, "meta.json"), "w"), indent=1)
print(sid, "caught_by", meta["caught_by"])
