#!/usr/bin/env python3
# Prints a markdown table of the streams of every check (quick-tier case counts and the main counters) from evidence/*.json.
import json, glob
print("| check | stream | cases (quick tier) |")
print("|---|---|---|")
for f in sorted(glob.glob('/verif/evidence/C*.json')):
    e = json.load(open(f))
    cps = e['coverage'].get('cases_per_stream', {})
    for name in sorted(cps):
        print("| %s | %s | %d |" % (e['property_id'], name, cps[name]))
