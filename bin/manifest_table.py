BASE_NOTE = ("Trusted: the Go toolchain, encoding/json decoding == gin binding, the harness's reference models (validated by agreement with the "
             "repaired tree and by the mutation pass in DESIGN.md section 11). Held on the executions produced, not proved.")
chk("C01", "runtime monitor: well-formedness oracle over generated + exhaustively enumerated tournament executions",
    "Every accepted response of the workload is checked by an executable well-formedness oracle (entry set, no self/duplicate/dangling links); "
    "all majority tournament outcome sequences for n<=7 are enumerated, the rest is seeded sampling over methods x biases x tie-heavy profiles.",
    BASE_NOTE, "DESIGN.md 4/C01")
for i in range(2, 21):
    NA["C%02d" % i] = "check under construction in this build phase (monitor designed in DESIGN.md section 4; will be claimed once it runs clean)"
