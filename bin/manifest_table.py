BASE = ("Trusted: the Go toolchain, encoding/json decoding == gin binding (cross-checked: the same corpora also run over HTTP), and the harness's own "
        "reference models / oracles (validated by agreement with the repaired tree at several seeds and by the seeded-change pass in DESIGN.md section 11). "
        "Held on the executions produced, not proved; counts of what was observed are in the evidence file. Streams named *-service run the same generator and oracle through "
        "decideHandler of main.go in-process, each case after a short history of other requests; every in-process decision runs under a deadlock detector (parked in the "
        "library for minutes with nothing of it running ends the worker, the case is re-run alone).")
DEC = " The decorators read unexported parameter structs through reflect+unsafe; a layout change makes cases inconclusive, never violations."
chk("C01", "runtime monitor: well-formedness oracle over generated executions + exhaustive enumeration of tournament shapes",
    "Every accepted response of the workload passes an executable well-formedness oracle (entry set = choseToMake + current choice, no self / duplicate / dangling links). "
    "All majority tournament outcome sequences for n<=7 x policies x currentChoice kinds are enumerated; the rest is seeded sampling over 7 methods x biases x tie-heavy profiles.",
    BASE, "DESIGN.md 4/C01")
chk("C02", "runtime monitor: history checker over repeated executions (same process, fresh service processes, permuted histories), byte equality",
    "Each generated request is executed repeatedly in one process (map iteration re-randomised per range), in several fresh service processes in different orders, "
    "and over the HTTP and library paths; all accepted observations must be byte-identical and verdicts equal.",
    BASE + " Wall-clock independence is only exercised by running at different times.", "DESIGN.md 4/C02")
chk("C03", "runtime monitor: reference-model oracle (defining formulas) on the data observed entering Evaluate (decorator at the PreferenceFunction seam)",
    "The three utility formulas are recomputed from the very data and parameters the method received (after any bias sequence) and compared with every reported value up to the API's 1e-8 rounding. "
    "The known weightedSum defect is recognised by its arithmetic signature; any other deviation is a violation.",
    BASE + DEC, "DESIGN.md 4/C03")
chk("C04", "runtime monitor: ranking oracle from reported values (exhaustive over {0..3}^n, n<=6) + metamorphic permutation checks",
    "Order, exact link sets and link closure are recomputed from the reported values for all 5460 small value vectors (through Ranking() and end to end) and for sampled tie-heavy / rounding-boundary instances, each re-run under permutations of the alternatives.",
    BASE, "DESIGN.md 4/C04")
chk("C05", "runtime monitor: independent textbook ELECTRE III reference model compared on every execution, with comparison-margin fragility filter",
    "An independent set-based ELECTRE III implementation is evaluated on the data Evaluate received and must reproduce both index vectors; class numbering and the link rule are checked structurally.",
    BASE + DEC + " Instances whose smallest non-zero comparison margin is below 1e-9 are skipped and counted.", "DESIGN.md 4/C05")
chk("C06", "runtime monitor: relational / metamorphic checks (dominance, identity, permutation, power-of-two weight scaling) over executions",
    "Planted dominated / identical alternatives, random permutations and exact weight scalings; only the relations of the statement are judged (no reference model).",
    BASE, "DESIGN.md 4/C06")
chk("C07", "runtime monitor: invariants at the Bias / BiasListener seams (decorator snapshots before/after every Apply) + exhaustive (method x bias-sequence<=2) enumeration",
    "Every fired bias is observed through decorators: alternatives/split unchanged, criteria change only as reported, values for every criterion, parameters covering every criterion, untouched values bit-identical, stage-to-stage continuity; every in-domain combination must be answered.",
    BASE + DEC + " In-domain = by construction of the generator (sound lower bound on the criteria count).", "DESIGN.md 4/C07")
chk("C08", "runtime monitor: relational checks over families of executions (probability grid monotonicity, independence under mutation of other entries, seed-frequency batteries)",
    "Echo / disabled-equivalence on generated bias lists; for fixed seed and position the firing pattern over a 33-point probability grid must be monotone and its switching point invariant under changes to the other entries; firing frequencies over 6000 seeds within 6 sigma.",
    BASE, "DESIGN.md 4/C08")
chk("C09", "runtime monitor: deep snapshots of inputs / reports / handed-on states re-compared through live pointers after the decision; history checker over request sequences",
    "The decoded request is compared before/after; every bias report and state snapshot taken at return is re-taken from the live objects at the end of the decision; earlier results are re-marshalled after later calls; the probe response is compared after histories of 2..50 requests.",
    BASE + DEC, "DESIGN.md 4/C09")
chk("C10", "Go race detector on the real service under concurrent clients + byte comparison with the sequential baseline; race-instrumented in-process run with injected yields",
    "The -race build of the service answers a corpus sequentially (baseline) and then concurrently (2..64 clients, GOMAXPROCS 1/4/16, identical requests in flight together); responses must equal the baseline, the process must live, the race log must be empty. Overlap counts are measured from call/return timestamps. "
    "Fresh-process bursts (24 goroutines on one method incl. every rejection path twice side by side; 16 goroutines on large problems: ELECTRE with 64+ alternatives in replicated kinds, 64..160 alternatives, "
    "13-criteria Choquet, large refused requests) run in the race-instrumented harness; a burst or request that never returns is decided from the runtime's goroutine states.",
    BASE + " Interleavings are sampled, not enumerated.", "DESIGN.md 4/C10")
chk("C11", "runtime monitor: reference tournament (exact) + existence search over admissible search orders / draw resolutions; exhaustive tournament shapes",
    "The sequential pairwise tournament is replayed on the data Evaluate received: exact equality for fixed order and deterministic policies, existence of an order (current choice first) and draw resolution reproducing the response otherwise; all one-criterion outcome sequences for n<=7 enumerated.",
    BASE + DEC, "DESIGN.md 4/C11")
chk("C12", "runtime monitor: sequential reference procedure (exact / existence over tied weights and shuffled alternatives)",
    "Levels -> criteria heaviest first -> alternatives, stop at one left; the response (order, level index, failed criterion and threshold, links) must equal the reference exactly or for some admissible order.",
    BASE + DEC, "DESIGN.md 4/C12")
chk("C13", "runtime monitor: sequential reference procedure (exact / existence over shuffled search order)",
    "Acceptance per level in search order, leftovers with the index after the last level and worst-of-range thresholds computed over all known alternatives as Evaluate received them.",
    BASE + DEC, "DESIGN.md 4/C13")
chk("C14", "runtime monitor: the level iterators wired in main.go driven directly and compared with the documented series (reference model), rejection of out-of-range parameters",
    "Find/Initialize/HasNext/Next of the four generated sources over a parameter grid and random parameters, degenerate / negative / declared / observed ranges, gain and cost; count, every threshold, termination, rejection.",
    BASE, "DESIGN.md 4/C14")
chk("C15", "runtime monitor: omission oracle on decorator snapshots + metamorphic equivalence with the reduced request + seed-frequency batteries",
    "Count rule, reported/omitted/kept partition, restriction of values and parameters, weakest/strongest against the monitor's own importance measures for all 7 listeners, byte equality with the request that has the criteria deleted, by-probability orderings over 4000 seeds.",
    BASE + DEC, "DESIGN.md 4/C15")
chk("C16", "runtime monitor: reversal oracle on decorator snapshots (formula, report, untouched data) + involution over two consecutive reversals",
    "v -> max+min-v for every known alternative on exactly the selected criteria, report = criteria/ranges/values, everything else identical, range preserved, double reversal restores the data.",
    BASE + DEC, "DESIGN.md 4/C16")
chk("C17", "runtime monitor: fatigue oracle on decorator snapshots (ratio recomputed, band / bounded band, identity, report) + direction check on 40-value decisions",
    "Per event |v'-v| <= |f v| or the bounded band, f=0 identity, criteria / parameters untouched, report = values handed on; both directions of movement must occur.",
    BASE + DEC, "DESIGN.md 4/C17")
chk("C18", "runtime monitor: addition oracle on decorator snapshots and listener callbacks (new criterion, parameters, reference criterion, value range / mixing formula) + seed-frequency batteries",
    "One new gain criterion with an unused id, values for everybody, parameters extended per listener (weight fraction from the observed seeded draw, Choquet power set, thresholds), reference criterion recomputed for importanceRatio, concealed range, mixing formula from the current values; random strategies over 4000 seeds.",
    BASE + DEC, "DESIGN.md 4/C18")
chk("C19", "runtime monitor: anchoring oracle on decorator snapshots (reference point, scaled and mapped differences, inline values, applied differences, new-criterion necessary conditions)",
    "Every quantity of the anchoring report is recomputed from the statement and the snapshot entering the bias; inline: exact values and new - old; newCriterion: convex-combination bound, type, parameters.",
    BASE + DEC, "DESIGN.md 4/C19")
chk("C20", "child-process supervision of the real service under a hostile corpus (status / shape oracle per request class, liveness via waitpid + schema endpoint, CPU-time criterion)",
    "Valid, constraint-catalogue, malformed, mutated, extreme and raw-TCP-fault requests, shuffled, against one process per batch; every answer is classified against its class; the child must stay alive and keep serving the schema endpoint; "
    "a request left without an answer by a live, idle process is decided from the goroutine dump the runtime prints on SIGQUIT (handler parked, nothing of the service running).",
    BASE + " Level coefficients in (0, 1e-3) are not sent, except ones too small to change the level at all (finite but astronomically long series: the verdict would depend on a time budget).", "DESIGN.md 4/C20")
