#!/bin/bash
# usage: bin/eval_seeded.sh <dir with patch.diff + demo.sh> <check id>...
# Confirms a seeded change (applies, builds, 158 tests pass, demo passes without / fails with it) in a scratch
# worktree of /repo and runs the given checks against that worktree (VERIF_REPO), never touching /repo.
set -u
D=$(cd "$1" && pwd); shift
VERIF=$(cd "$(dirname "$0")/.." && pwd)
export GOFLAGS=-mod=mod GOPROXY=off GOSUMDB=off GOTOOLCHAIN=local
WT=$(mktemp -d /tmp/rdm-seeded.XXXXXX); rmdir "$WT"
git -C /repo worktree add -q --detach "$WT" HEAD || exit 2
OUT=$(mktemp -d /tmp/rdm-seeded-out.XXXXXX)
cleanup() { git -C /repo worktree remove --force "$WT" 2>/dev/null; rm -rf "$OUT"; }
trap cleanup EXIT
res() { echo "RESULT $1"; }
if [ -x "$D/demo.sh" ] || [ -f "$D/demo.sh" ]; then
  if bash "$D/demo.sh" "$WT" >"$OUT/demo_clean.log" 2>&1; then res "demo_clean=pass"; else res "demo_clean=FAIL"; tail -5 "$OUT/demo_clean.log"; fi
  git -C "$WT" status --short | grep -q . && { git -C "$WT" checkout -q -- .; git -C "$WT" clean -fdq; }
fi
if ! git -C "$WT" apply "$D/patch.diff"; then res "apply=FAIL"; exit 2; fi
res "apply=ok"
if ! (cd "$WT/lib" && go build ./... ) >"$OUT/build.log" 2>&1 || ! (cd "$WT/httpClient" && go vet -mod=mod . >/dev/null 2>&1 || true); then res "build=FAIL"; tail "$OUT/build.log"; exit 2; fi
S=$(/root/rdm_suite.sh "$WT" | tail -1); res "suite: $S"
if [ -f "$D/demo.sh" ]; then
  if bash "$D/demo.sh" "$WT" >"$OUT/demo_patched.log" 2>&1; then res "demo_patched=PASS(unexpected)"; else res "demo_patched=fail(expected)"; fi
  git -C "$WT" clean -fdq 2>/dev/null
fi
for id in "$@"; do
  VERIF_REPO="$WT" VERIF_OUT="$OUT" "$VERIF/bin/check" "$id" >"$OUT/$id.log" 2>&1; rc=$?
  res "check $id exit=$rc :: $(grep -m1 -A1 '^VIOLATION' "$OUT/$id.log" | tail -1 | cut -c1-220)"
  [ $rc = 2 ] && grep -m3 INCONCLUSIVE "$OUT/$id.log" | cut -c1-200
done
