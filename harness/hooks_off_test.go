//go:build !verif

package main

const hooksEnabled = false

func hookCredibility(s *dmpSnap) (ids []string, sigma [][]float64, ok bool) { return nil, nil, false }
