package main

// C20 — the HTTP service answers every request and survives it (hostile corpus against the real binary).

import (
	"bytes"
	"encoding/json"
	"fmt"
	"math/rand"
	"sort"
	"strings"
)

type hostile struct {
	kind   string // valid | malformed | mutation | constraint:<name> | fault:<name> | extreme:<name>
	body   []byte
	raw    []byte // raw TCP payload (client faults)
	expect int    // 200, 400, or 0 = any well-formed answer
	names  []string
	half   bool
	req    M
}

func validBase(method string, r *rand.Rand) *genReq {
	ids := []string{"c0", "c1", "c2"}
	g := &genReq{method: method}
	var crit []interface{}
	for i, id := range ids {
		t := "gain"
		if i == 2 && method != "choquetIntegral" && method != "owa" {
			t = "cost"
		}
		crit = append(crit, M{"id": id, "type": t})
		g.crits = append(g.crits, critSpec{id: id, cost: t == "cost"})
	}
	var alts []interface{}
	for a := 0; a < 3; a++ {
		cv := M{}
		for _, id := range ids {
			cv[id] = quarter(r, 0, 40)
		}
		alts = append(alts, M{"id": fmt.Sprintf("a%d", a), "criteria": cv})
		g.altIds = append(g.altIds, fmt.Sprintf("a%d", a))
	}
	mp := M{}
	w := M{"c0": 1.0, "c1": 2.5, "c2": 0.5}
	switch method {
	case "weightedSum", "owa":
		mp["weights"] = w
	case "choquetIntegral":
		cw := M{}
		for _, k := range powerSetKeys(ids) {
			cw[k] = float64(r.Intn(9)) / 8
		}
		mp["weights"] = cw
	case "electreIII":
		mp["electreCriteria"] = M{"c0": M{"k": 1.0, "q": M{"b": 1.0}, "p": M{"b": 2.0}, "v": M{"b": 4.0}}, "c1": M{"k": 2.0, "p": M{"b": 1.5}}, "c2": M{"k": 0.5}}
	case "majorityHeuristic":
		mp["weights"] = w
	case "aspectEliminationHeuristic":
		mp["weights"] = w
		mp["function"] = "thresholds"
		mp["params"] = M{"thresholds": []interface{}{M{"c0": 1.0, "c1": 2.0, "c2": 8.0}, M{"c0": 3.0, "c1": 4.0, "c2": 6.0}}}
	case "satisfactionHeuristic":
		mp["function"] = "thresholds"
		mp["params"] = M{"thresholds": []interface{}{M{"c0": 6.0, "c1": 6.0, "c2": 2.0}, M{"c0": 1.0, "c1": 1.0, "c2": 9.0}}}
	}
	g.chose = []string{"a0", "a1"}
	g.M = M{"preferenceFunction": method, "knownAlternatives": alts, "choseToMake": []interface{}{"a0", "a1"}, "criteria": crit, "methodParameters": mp, "biasApplyRandomSeed": r.Intn(1000)}
	return g
}

var allMethodNames = methods
var allBiasNames = biasNames

type constraint struct {
	name    string
	methods []string // nil = all
	expect  int
	names   []string
	apply   func(req M)
}

func mpOf(req M) M { return req["methodParameters"].(M) }

// oneCriterion reduces a validBase request (weight-based method or ELECTRE) to its first criterion
func oneCriterion(q M) {
	q["criteria"] = q["criteria"].([]interface{})[:1]
	for _, a := range q["knownAlternatives"].([]interface{}) {
		cv := a.(M)["criteria"].(M)
		for k := range cv {
			if k != "c0" {
				delete(cv, k)
			}
		}
	}
	for _, key := range []string{"weights", "electreCriteria"} {
		if w, ok := mpOf(q)[key].(M); ok {
			for k := range w {
				if k != "c0" {
					delete(w, k)
				}
			}
		}
	}
}

func oneBias(name string, props M) []interface{} {
	return []interface{}{M{"name": name, "props": props}}
}

func validAnchoring() M {
	return M{"anchoringAlternatives": []interface{}{M{"alternative": "a2", "coefficient": 1.5}}, "referencePoints": M{"function": "ideal"},
		"loss": M{"function": "linear", "params": M{"a": 0.5, "b": 0.125}}, "gain": M{"function": "expFromZero", "params": M{"alpha": 1.0, "multiplier": 0.5}},
		"applier": M{"function": "inline", "params": M{}}}
}

var levelMethods = []string{"aspectEliminationHeuristic", "satisfactionHeuristic"}
var weightMethods = []string{"weightedSum", "owa", "majorityHeuristic", "aspectEliminationHeuristic"}

func generatedLevels(method string) (string, M) {
	if method == "aspectEliminationHeuristic" {
		return "idealAdditiveCoefficient", M{"minValue": 0.25, "maxValue": 0.75, "coefficient": 0.25}
	}
	return "idealSubtractiveCoefficient", M{"minValue": 0.25, "maxValue": 0.75, "coefficient": 0.25}
}

var constraints = []constraint{
	{name: "unknownMethod", expect: 400, names: allMethodNames, apply: func(q M) { q["preferenceFunction"] = "noSuchMethod" }},
	{name: "unknownBias", expect: 400, names: allBiasNames, apply: func(q M) { q["biases"] = oneBias("noSuchBias", M{}) }},
	{name: "unknownMethodPadded", expect: 400, names: allMethodNames, apply: func(q M) { q["preferenceFunction"] = q["preferenceFunction"].(string) + " " }},
	{name: "unknownMethodLeadingBlank", expect: 400, names: allMethodNames, apply: func(q M) { q["preferenceFunction"] = " " + q["preferenceFunction"].(string) }},
	{name: "unknownBiasPadded", expect: 400, names: allBiasNames, apply: func(q M) { q["biases"] = oneBias("fatigue ", M{}) }},
	{name: "unknownOrdering", expect: 400, apply: func(q M) { q["biases"] = oneBias("criteriaOmission", M{"ratio": 0.34, "ordering": "noSuchOrdering"}) }},
	{name: "unknownOrderingReversal", expect: 400, apply: func(q M) { q["biases"] = oneBias("preferenceReversal", M{"ratio": 0.34, "ordering": "noSuchOrdering"}) }},
	{name: "unknownFatigueFunction", expect: 400, apply: func(q M) {
		q["biases"] = oneBias("fatigue", M{"function": "noSuchFunction", "params": M{"value": 0.1}})
	}},
	{name: "unknownAnchoringGain", expect: 400, apply: func(q M) {
		p := validAnchoring()
		p["gain"] = M{"function": "noSuchFunction", "params": M{}}
		q["biases"] = oneBias("anchoring", p)
	}},
	{name: "unknownAnchoringLoss", expect: 400, apply: func(q M) {
		p := validAnchoring()
		p["loss"] = M{"function": "noSuchFunction", "params": M{}}
		q["biases"] = oneBias("anchoring", p)
	}},
	{name: "unknownAnchoringApplier", expect: 400, apply: func(q M) {
		p := validAnchoring()
		p["applier"] = M{"function": "noSuchApplier", "params": M{}}
		q["biases"] = oneBias("anchoring", p)
	}},
	{name: "unknownReferencePoints", expect: 400, apply: func(q M) {
		p := validAnchoring()
		p["referencePoints"] = M{"function": "noSuchStrategy"}
		q["biases"] = oneBias("anchoring", p)
	}},
	{name: "unknownLevelsFunction", methods: levelMethods, expect: 400, apply: func(q M) { mpOf(q)["function"] = "noSuchFunction" }},
	{name: "duplicateCriterion", expect: 400, apply: func(q M) {
		cs := q["criteria"].([]interface{})
		q["criteria"] = append(cs, deepCopyM(cs[0].(M)))
	}},
	{name: "duplicateCriterionOtherType", expect: 400, apply: func(q M) {
		cs := q["criteria"].([]interface{})
		dup := deepCopyM(cs[0].(M))
		dup["type"] = "cost"
		q["criteria"] = append(cs, dup)
	}},
	{name: "duplicateCriterionWithRange", expect: 400, apply: func(q M) {
		cs := q["criteria"].([]interface{})
		dup := deepCopyM(cs[1].(M))
		dup["valuesRange"] = M{"min": 0.0, "max": 100.0}
		q["criteria"] = append(cs, dup)
	}},
	{name: "duplicateCriterionTypeLeftOut", expect: 400, apply: func(q M) {
		cs := q["criteria"].([]interface{})
		dup := deepCopyM(cs[0].(M))
		delete(dup, "type")
		q["criteria"] = append(cs, dup)
	}},
	{name: "unknownOrderingOneCriterion", methods: []string{"weightedSum", "owa", "majorityHeuristic", "electreIII"}, expect: 400, apply: func(q M) {
		oneCriterion(q)
		q["biases"] = oneBias("criteriaOmission", M{"ratio": 0.0, "ordering": "noSuchOrdering"})
	}},
	{name: "unknownOrderingReversalOneCriterion", methods: []string{"weightedSum", "owa", "majorityHeuristic", "electreIII"}, expect: 400, apply: func(q M) {
		oneCriterion(q)
		q["biases"] = oneBias("preferenceReversal", M{"ratio": 1.0, "ordering": "noSuchOrdering"})
	}},
	{name: "anchoringParamsWrongType", expect: 400, apply: func(q M) {
		a := validAnchoring()
		a["loss"] = M{"function": "linear", "params": M{"a": "steep", "b": 0.125}}
		q["biases"] = oneBias("anchoring", a)
	}},
	{name: "fatigueParamsWrongType", expect: 400, apply: func(q M) {
		q["biases"] = oneBias("fatigue", M{"function": "const", "params": M{"value": "tired"}})
	}},
	{name: "omissionRatioWrongType", expect: 400, apply: func(q M) { q["biases"] = oneBias("criteriaOmission", M{"ratio": "half"}) }},
	{name: "emptyRange", expect: 400, apply: func(q M) { q["criteria"].([]interface{})[0].(M)["valuesRange"] = M{"min": 3.0, "max": 3.0} }},
	{name: "invertedRange", expect: 400, apply: func(q M) { q["criteria"].([]interface{})[1].(M)["valuesRange"] = M{"min": 10.0, "max": -10.0} }},
	{name: "missingValue", expect: 400, apply: func(q M) { delete(q["knownAlternatives"].([]interface{})[1].(M)["criteria"].(M), "c1") }},
	{name: "missingValueNotConsidered", expect: 400, apply: func(q M) { delete(q["knownAlternatives"].([]interface{})[2].(M)["criteria"].(M), "c0") }},
	{name: "missingWeight", methods: weightMethods, expect: 400, apply: func(q M) { delete(mpOf(q)["weights"].(M), "c1") }},
	{name: "misspelledWeight", methods: weightMethods, expect: 400, apply: func(q M) {
		w := mpOf(q)["weights"].(M)
		w["c1 "] = w["c1"] // as many weights as criteria, but none for c1
		delete(w, "c1")
	}},
	{name: "missingWeights", methods: append(append([]string{}, weightMethods...), "choquetIntegral"), expect: 400, apply: func(q M) { delete(mpOf(q), "weights") }},
	{name: "missingCapacity", methods: []string{"choquetIntegral"}, expect: 400, apply: func(q M) { delete(mpOf(q)["weights"].(M), "c0,c2") }},
	{name: "missingElectreCriterion", methods: []string{"electreIII"}, expect: 400, apply: func(q M) { delete(mpOf(q)["electreCriteria"].(M), "c2") }},
	{name: "missingElectreCriteria", methods: []string{"electreIII"}, expect: 400, apply: func(q M) { delete(mpOf(q), "electreCriteria") }},
	{name: "missingThreshold", methods: levelMethods, expect: 400, apply: func(q M) {
		delete(mpOf(q)["params"].(M)["thresholds"].([]interface{})[1].(M), "c1")
	}},
	{name: "choquetWeightAboveOne", methods: []string{"choquetIntegral"}, expect: 400, apply: func(q M) { mpOf(q)["weights"].(M)["c0,c1"] = 1.5 }},
	{name: "choquetWeightNegative", methods: []string{"choquetIntegral"}, expect: 400, apply: func(q M) { mpOf(q)["weights"].(M)["c2"] = -0.125 }},
	{name: "choquetCostCriterion", methods: []string{"choquetIntegral"}, expect: 400, apply: func(q M) { q["criteria"].([]interface{})[1].(M)["type"] = "cost" }},
	{name: "electreZeroWeight", methods: []string{"electreIII"}, expect: 400, apply: func(q M) { mpOf(q)["electreCriteria"].(M)["c1"].(M)["k"] = 0.0 }},
	{name: "electreNegativeWeight", methods: []string{"electreIII"}, expect: 400, apply: func(q M) { mpOf(q)["electreCriteria"].(M)["c2"].(M)["k"] = -1.0 }},
	{name: "electreQAboveP", methods: []string{"electreIII"}, expect: 400, apply: func(q M) { mpOf(q)["electreCriteria"].(M)["c0"].(M)["q"] = M{"b": 3.0} }},
	{name: "electreQEqualsP", methods: []string{"electreIII"}, expect: 400, apply: func(q M) { mpOf(q)["electreCriteria"].(M)["c0"].(M)["q"] = M{"b": 2.0} }},
	{name: "electrePAboveV", methods: []string{"electreIII"}, expect: 400, apply: func(q M) { mpOf(q)["electreCriteria"].(M)["c0"].(M)["v"] = M{"b": 1.5} }},
	{name: "electreNegativeV", methods: []string{"electreIII"}, expect: 400, apply: func(q M) { mpOf(q)["electreCriteria"].(M)["c0"].(M)["v"] = M{"b": -3.0} }},
	{name: "electreNegativeP", methods: []string{"electreIII"}, expect: 400, apply: func(q M) { mpOf(q)["electreCriteria"].(M)["c0"].(M)["p"] = M{"b": -1.0} }},
	{name: "omissionRatioAboveOne", expect: 400, apply: func(q M) { q["biases"] = oneBias("criteriaOmission", M{"ratio": 1.5, "max": 1}) }},
	{name: "omissionRatioNegative", expect: 400, apply: func(q M) { q["biases"] = oneBias("criteriaOmission", M{"ratio": -0.125}) }},
	{name: "reversalRatioAboveOne", expect: 400, apply: func(q M) { q["biases"] = oneBias("preferenceReversal", M{"ratio": 1.25}) }},
	{name: "maxBelowMin", expect: 400, apply: func(q M) { q["biases"] = oneBias("criteriaOmission", M{"ratio": 0.5, "min": 2, "max": 1}) }},
	{name: "mixingRatioAboveOne", expect: 400, apply: func(q M) { q["biases"] = oneBias("criteriaMixing", M{"mixingRatio": 1.5}) }},
	{name: "mixingRatioNegative", expect: 400, apply: func(q M) { q["biases"] = oneBias("criteriaMixing", M{"mixingRatio": -0.5}) }},
	{name: "coefficientZero", methods: levelMethods, expect: 400, apply: func(q M) {
		fn, p := generatedLevels(q["preferenceFunction"].(string))
		p["coefficient"] = 0.0
		mpOf(q)["function"], mpOf(q)["params"] = fn, p
	}},
	{name: "coefficientOne", methods: levelMethods, expect: 400, apply: func(q M) {
		fn, p := generatedLevels(q["preferenceFunction"].(string))
		p["coefficient"] = 1.0
		mpOf(q)["function"], mpOf(q)["params"] = fn, p
	}},
	{name: "minValueNegative", methods: levelMethods, expect: 400, apply: func(q M) {
		fn, p := generatedLevels(q["preferenceFunction"].(string))
		p["minValue"] = -0.125
		mpOf(q)["function"], mpOf(q)["params"] = fn, p
	}},
	{name: "maxValueAboveOne", methods: levelMethods, expect: 400, apply: func(q M) {
		fn, p := generatedLevels(q["preferenceFunction"].(string))
		p["maxValue"] = 1.125
		mpOf(q)["function"], mpOf(q)["params"] = fn, p
	}},
	{name: "unknownConsideredAlternative", expect: 400, apply: func(q M) { q["choseToMake"] = []interface{}{"a0", "ghost"} }},
	{name: "unknownCurrentChoice", methods: []string{"majorityHeuristic", "satisfactionHeuristic"}, expect: 400, apply: func(q M) { mpOf(q)["currentChoice"] = "ghost" }},
	{name: "unknownAnchoringAlternative", expect: 400, apply: func(q M) {
		p := validAnchoring()
		p["anchoringAlternatives"] = []interface{}{M{"alternative": "ghost", "coefficient": 1.0}}
		q["biases"] = oneBias("anchoring", p)
	}},
	// not in the statement's catalogue: any well-formed answer is accepted, but the service must answer and survive
	{name: "criteriaNamedLikeConcealedOnes", expect: 200, apply: func(q M) {
		// the request's own criteria carry the ids a concealment would generate second and third: the new criterion still
		// gets an id that is free
		renameCriterion(q, "c1", "__concealedCriterion__2")
		renameCriterion(q, "c2", "__concealedCriterion__3")
		q["biases"] = oneBias("criteriaConcealment", M{"randomSeed": 7, "newCriterionRandomSeed": 11})
	}},
	{name: "criteriaNamedLikeConcealedOnesTwice", expect: 200, apply: func(q M) {
		renameCriterion(q, "c0", "__concealedCriterion__1")
		renameCriterion(q, "c1", "__concealedCriterion__3")
		renameCriterion(q, "c2", "__concealedCriterion__4")
		q["biases"] = []interface{}{M{"name": "criteriaConcealment", "props": M{"randomSeed": 7}}, M{"name": "criteriaConcealment", "props": M{"randomSeed": 8}}}
	}},
	{name: "invalidReversalAfterOmissionOfEverything", methods: []string{"weightedSum"}, expect: 400, apply: func(q M) {
		// a constraint of a later bias is checked also when an earlier one left it nothing to work on
		q["biases"] = []interface{}{M{"name": "criteriaOmission", "props": M{"ratio": 1.0}}, M{"name": "preferenceReversal", "props": M{"ratio": 0.5, "ordering": "noSuchOrdering"}}}
	}},
	{name: "reversalRatioAboveOneAfterOmissionOfEverything", methods: []string{"weightedSum"}, expect: 400, apply: func(q M) {
		q["biases"] = []interface{}{M{"name": "criteriaOmission", "props": M{"ratio": 1.0}}, M{"name": "preferenceReversal", "props": M{"ratio": 1.25}}}
	}},
	{name: "emptyMethod", expect: 0, apply: func(q M) { q["preferenceFunction"] = "  " }},
	{name: "unknownDrawResolution", methods: []string{"majorityHeuristic"}, expect: 0, apply: func(q M) { mpOf(q)["drawResolution"] = "noSuchPolicy" }},
	{name: "unknownReferenceCriterionType", expect: 0, apply: func(q M) { q["biases"] = oneBias("criteriaConcealment", M{"referenceCriterionType": "noSuchType"}) }},
	{name: "distillationNegative", methods: []string{"electreIII"}, expect: 0, apply: func(q M) { mpOf(q)["electreDistillation"] = M{"a": -0.2, "b": 0.1} }},
	{name: "distillationNegativeSlope", methods: []string{"electreIII"}, expect: 0, apply: func(q M) { mpOf(q)["electreDistillation"] = M{"a": -2.0, "b": 1.0} }},
	{name: "distillationBarelyNegativeAtOne", methods: []string{"electreIII"}, expect: 0, apply: func(q M) { mpOf(q)["electreDistillation"] = M{"a": -0.3000000001, "b": 0.3} }},
	{name: "distillationBarelyNegativeAtZero", methods: []string{"electreIII"}, expect: 0, apply: func(q M) { mpOf(q)["electreDistillation"] = M{"a": 0.0, "b": -1e-12} }},
	{name: "distillationRoundingNegative", methods: []string{"electreIII"}, expect: 0, apply: func(q M) { mpOf(q)["electreDistillation"] = M{"a": -(0.1 + 0.2), "b": 0.3} }},
	{name: "distillationZeroAtOne", methods: []string{"electreIII"}, expect: 200, apply: func(q M) { mpOf(q)["electreDistillation"] = M{"a": -0.3, "b": 0.3} }},
	{name: "distillationZero", methods: []string{"electreIII"}, expect: 0, apply: func(q M) { mpOf(q)["electreDistillation"] = M{"a": 0.0, "b": 0.0} }},
	{name: "distillationHuge", methods: []string{"electreIII"}, expect: 0, apply: func(q M) { mpOf(q)["electreDistillation"] = M{"a": 5.0, "b": 7.0} }},
	{name: "zeroBoundingScaling", expect: 0, apply: func(q M) {
		q["biases"] = oneBias("fatigue", M{"function": "const", "params": M{"value": 0.1}, "allowedValuesRangeScaling": 0.0})
	}},
	{name: "zeroConcealmentScaling", expect: 0, apply: func(q M) { q["biases"] = oneBias("criteriaConcealment", M{"newCriterionScaling": 0.0}) }},
	{name: "noAnchoringAlternatives", expect: 0, apply: func(q M) {
		p := validAnchoring()
		p["anchoringAlternatives"] = []interface{}{}
		q["biases"] = oneBias("anchoring", p)
	}},
	{name: "valueForUndeclaredCriterion", expect: 0, apply: func(q M) { q["knownAlternatives"].([]interface{})[0].(M)["criteria"].(M)["zz_undeclared"] = 3.5 }},
	{name: "weightForUndeclaredCriterion", methods: weightMethods, expect: 0, apply: func(q M) { mpOf(q)["weights"].(M)["zz_undeclared"] = 1.5 }},
	{name: "emptyChoseToMake", expect: 0, apply: func(q M) { q["choseToMake"] = []interface{}{} }},
	{name: "noCriteria", expect: 0, apply: func(q M) { q["criteria"] = []interface{}{} }},
	{name: "omissionOfEverything", expect: 0, apply: func(q M) { q["biases"] = oneBias("criteriaOmission", M{"ratio": 1.0}) }},
	{name: "omissionMinAboveCount", expect: 0, apply: func(q M) { q["biases"] = oneBias("criteriaOmission", M{"ratio": 0.0, "min": 7, "max": 9}) }},
}

func constraintCases(r *rand.Rand) []hostile {
	var out []hostile
	for _, cst := range constraints {
		ms := cst.methods
		if ms == nil {
			ms = methods
		}
		for _, m := range ms {
			g := validBase(m, r)
			cst.apply(g.M)
			out = append(out, hostile{kind: "constraint:" + cst.name, body: g.body(), expect: cst.expect, names: cst.names, req: g.M})
			// the same violation in a request that considers one alternative only (nothing to compare, eliminate or rank:
			// short cuts for "trivial" decisions must not come before the validation)
			if ch, ok := g.M["choseToMake"].([]interface{}); ok && len(ch) == 2 && ch[0] == "a0" && ch[1] == "a1" && cst.expect == 400 {
				g1 := validBase(m, r)
				cst.apply(g1.M)
				g1.M["choseToMake"] = []interface{}{"a0"}
				if cc, isS := mpOf(g1.M)["currentChoice"].(string); isS && cc != "a0" && cst.name != "unknownCurrentChoice" {
					delete(mpOf(g1.M), "currentChoice")
				}
				out = append(out, hostile{kind: "constraint:" + cst.name + "/singleAlternative", body: g1.body(), expect: cst.expect, names: cst.names, req: g1.M})
			}
		}
	}
	return out
}

func bigChoquet(n int, full bool) M {
	var ids []string
	var crit []interface{}
	cv := M{}
	for i := 0; i < n; i++ {
		id := fmt.Sprintf("k%d", i)
		ids = append(ids, id)
		crit = append(crit, M{"id": id, "type": "gain"})
		cv[id] = float64(i%7) + 0.5
	}
	w := M{"k0": 0.5}
	if full {
		for _, k := range powerSetKeys(ids) {
			w[k] = 0.5
		}
	}
	return M{"preferenceFunction": "choquetIntegral", "knownAlternatives": []interface{}{M{"id": "a", "criteria": cv}, M{"id": "b", "criteria": cv}},
		"choseToMake": []interface{}{"a", "b"}, "criteria": crit, "methodParameters": M{"weights": w}}
}

func extremeCases(r *rand.Rand, tier string) []hostile {
	var out []hostile
	add := func(name string, req M, expect int) {
		b, _ := json.Marshal(req)
		out = append(out, hostile{kind: "extreme:" + name, body: b, expect: expect, req: nil})
	}
	// many criteria for Choquet: the power set must not be enumerated before the weights are looked at
	for _, n := range []int{16, 34, 40, 64} {
		add(fmt.Sprintf("choquet%dCriteriaOneWeight", n), bigChoquet(n, false), 400)
	}
	// very many criteria with exactly the capacities an evaluation would look up (the nested unions of the criteria sorted by
	// value) and the single criteria: all other unions are missing, so the request is refused - the check that says so
	// must not depend on 2^n fitting a machine word
	for _, n := range []int{62, 63, 64, 70} {
		q := bigChoquet(n, false)
		ids := make([]string, n)
		vals := map[string]float64{}
		for i := 0; i < n; i++ {
			ids[i] = fmt.Sprintf("k%d", i)
			vals[ids[i]] = float64(i) + 0.5
		}
		for _, a := range q["knownAlternatives"].([]interface{}) {
			cv := M{}
			for k, v := range vals {
				cv[k] = v
			}
			a.(M)["criteria"] = cv
		}
		w := M{}
		for i := 0; i < n; i++ {
			w[ids[i]] = 0.5
			rest := append([]string{}, ids[i:]...)
			sort.Strings(rest)
			w[strings.Join(rest, ",")] = 0.5
		}
		mpOf(q)["weights"] = w
		add(fmt.Sprintf("choquet%dCriteriaNestedUnionsOnly", n), q, 400)
	}
	add("choquet12Full", bigChoquet(12, true), 200)
	if tier == "thorough" {
		add("choquet16Full", bigChoquet(16, true), 200)
	}
	// many alternatives
	for _, m := range []string{"weightedSum", "majorityHeuristic", "electreIII", "satisfactionHeuristic"} {
		g := validBase(m, r)
		n := 1000
		if m == "electreIII" {
			n = 120
		}
		var alts, chose []interface{}
		for i := 0; i < n; i++ {
			id := fmt.Sprintf("x%d", i)
			alts = append(alts, M{"id": id, "criteria": M{"c0": float64(r.Intn(50)), "c1": float64(r.Intn(50)), "c2": float64(r.Intn(50))}})
			chose = append(chose, id)
		}
		g.M["knownAlternatives"], g.M["choseToMake"] = alts, chose
		add("manyAlternatives:"+m, g.M, 200)
	}
	// large AND defective: one alternative of many carries a value for an undeclared criterion / lacks a value
	for _, m := range []string{"weightedSum", "owa", "choquetIntegral", "majorityHeuristic"} {
		for variant := 0; variant < 2; variant++ {
			g := validBase(m, r)
			var alts, chose []interface{}
			for i := 0; i < 150; i++ {
				id := fmt.Sprintf("x%d", i)
				alts = append(alts, M{"id": id, "criteria": M{"c0": float64(r.Intn(50)), "c1": float64(r.Intn(50)), "c2": float64(r.Intn(50))}})
				chose = append(chose, id)
			}
			bad := alts[100+r.Intn(40)].(M)["criteria"].(M)
			expect := 0
			if variant == 0 {
				bad["zz_undeclared"] = 1.5
			} else {
				delete(bad, "c1")
				expect = 400
			}
			g.M["knownAlternatives"], g.M["choseToMake"] = alts, chose
			add(fmt.Sprintf("manyAlternativesOneDefective%d:%s", variant, m), g.M, expect)
		}
	}
	// extreme numbers in well-formed requests
	g := validBase("weightedSum", r)
	g.M["biases"] = oneBias("fatigue", M{"function": "expFromZero", "params": M{"alpha": 1.0, "multiplier": 1.0, "queryNumber": 1000000000}, "randomSeed": 9223372036854775807})
	add("fatigueOverflow", g.M, 0)
	g = validBase("majorityHeuristic", r)
	mpOf(g.M)["randomSeed"] = -9223372036854775808
	mpOf(g.M)["randomAlternativesOrdering"] = true
	g.M["biasApplyRandomSeed"] = 9223372036854775807
	add("seedExtremes", g.M, 0)
	g = validBase("owa", r)
	g.M["biases"] = oneBias("criteriaOmission", M{"ratio": 0.5, "min": -4611686018427387904, "max": 4611686018427387904})
	add("minMaxExtremes", g.M, 0)
	g = validBase("weightedSum", r)
	for _, a := range g.M["knownAlternatives"].([]interface{}) {
		for k := range a.(M)["criteria"].(M) {
			a.(M)["criteria"].(M)[k] = 1e308
		}
	}
	mpOf(g.M)["weights"] = M{"c0": 1e308, "c1": 1e308, "c2": 1e308}
	add("hugeValues", g.M, 0)
	g = validBase("electreIII", r)
	for _, a := range g.M["knownAlternatives"].([]interface{}) {
		for k := range a.(M)["criteria"].(M) {
			a.(M)["criteria"].(M)[k] = 0.0
		}
	}
	add("allZeroValues", g.M, 200)
	// decimal ELECTRE weights whose normalised sum is not exactly 1, a pair that is concordant on every criterion, and
	// distillation functions that vanish at credibility 1 (a = -b): the cut level must still make progress
	for i, ks := range [][]float64{{0.1, 0.4, 0.2}, {0.3, 0.1, 0.3}, {0.7, 0.1, 0.1}, {0.1, 0.2, 0.3}} {
		for j, ab := range [][2]float64{{-1, 1}, {-0.5, 0.5}, {-0.3, 0.3}} {
			g = validBase("electreIII", r)
			g.M["knownAlternatives"] = []interface{}{
				M{"id": "a0", "criteria": M{"c0": 9.0, "c1": 8.0, "c2": 1.0}}, M{"id": "a1", "criteria": M{"c0": 5.0, "c1": 8.0, "c2": 3.0}}, M{"id": "a2", "criteria": M{"c0": 5.0, "c1": 2.0, "c2": 3.0}}}
			g.M["choseToMake"] = []interface{}{"a0", "a1", "a2"}
			mpOf(g.M)["electreCriteria"] = M{"c0": M{"k": ks[0], "q": M{"b": 1.0}, "p": M{"b": 2.0}}, "c1": M{"k": ks[1], "p": M{"b": 1.5}}, "c2": M{"k": ks[2]}}
			mpOf(g.M)["electreDistillation"] = M{"a": ab[0], "b": ab[1]}
			add(fmt.Sprintf("decimalWeightsSteepDistillation%d_%d", i, j), g.M, 200)
		}
	}
	// a refused request must not keep anything the next ones need: two large Choquet requests that lack a capacity,
	// then complete ones of the same size
	for i := 0; i < 3; i++ {
		q := bigChoquet(13, true)
		delete(mpOf(q)["weights"].(M), "k3,k7,k11")
		add(fmt.Sprintf("choquet13MissingCapacity%d", i), q, 400)
	}
	add("choquet13FullAfterRefused", bigChoquet(13, true), 200)
	add("choquet13FullAfterRefusedAgain", bigChoquet(13, true), 200)
	g = validBase("aspectEliminationHeuristic", r)
	fn, p := generatedLevels("aspectEliminationHeuristic")
	p["coefficient"] = 0.001
	p["minValue"], p["maxValue"] = 0.0, 1.0
	mpOf(g.M)["function"], mpOf(g.M)["params"] = fn, p
	add("thousandLevels", g.M, 200)
	// coefficients too small to change the level in floating point: the series must not spin forever
	for i, spec := range []struct {
		method, fn string
		p          M
	}{
		{"aspectEliminationHeuristic", "idealAdditiveCoefficient", M{"minValue": 0.5, "maxValue": 1.0, "coefficient": 1e-17}},
		{"aspectEliminationHeuristic", "idealMultipliedCoefficient", M{"minValue": 0.0, "maxValue": 1.0, "coefficient": 1e-17}},
		{"satisfactionHeuristic", "idealSubtractiveCoefficient", M{"minValue": 0.25, "maxValue": 1.0, "coefficient": 1e-300}},
	} {
		g = validBase(spec.method, r)
		// identical alternatives are never eliminated / never satisfied early, so every level is walked
		alts := g.M["knownAlternatives"].([]interface{})
		for _, a := range alts {
			a.(M)["criteria"] = M{"c0": 1.0, "c1": 1.0, "c2": 1.0}
		}
		mpOf(g.M)["function"], mpOf(g.M)["params"] = spec.fn, spec.p
		add(fmt.Sprintf("stuckLevels%d", i), g.M, 0)
	}
	return out
}

func malformedCases(r *rand.Rand) []hostile {
	var out []hostile
	add := func(name string, b []byte) {
		out = append(out, hostile{kind: "malformed:" + name, body: b, expect: 400})
	}
	valid := validBase(methods[r.Intn(len(methods))], r).body()
	// truncations at every byte-class boundary
	cls := func(b byte) int {
		switch {
		case b == '"':
			return 1
		case b == '{' || b == '}' || b == '[' || b == ']':
			return 2
		case b == ':' || b == ',':
			return 3
		case b >= '0' && b <= '9' || b == '.' || b == '-':
			return 4
		}
		return 5
	}
	for i := 1; i < len(valid); i++ {
		if cls(valid[i]) != cls(valid[i-1]) && r.Intn(6) == 0 {
			add("truncated", append([]byte{}, valid[:i]...))
		}
	}
	for _, s := range []string{"", " ", "[]", `"x"`, "3", "true", "{", "}", "{]", `{"preferenceFunction":}`, `{"preferenceFunction":"owa",}`, "nul", "\x00", "\xff\xfe\xfd", `{"a":"` + "\xc3\x28" + `"}`,
		`{"knownAlternatives":"x"}`, `{"knownAlternatives":[1,2]}`, `{"criteria":{"id":"c"}}`, `{"choseToMake":[1]}`, `{"biases":"x"}`, `{"methodParameters":[1]}`, `{"biasApplyRandomSeed":"x"}`,
		`{"biasApplyRandomSeed":1.5}`, `{"criteria":[{"id":"c","valuesRange":"x"}]}`, `{"preferenceFunction":1e999}`, `{"knownAlternatives":[{"id":"a","criteria":{"c":1e999}}]}`} {
		add("shape", []byte(s))
	}
	add("deepArrays", []byte(strings.Repeat("[", 10000)+strings.Repeat("]", 10000)))
	add("deepObjects", []byte(strings.Repeat(`{"a":`, 10000)+"1"+strings.Repeat("}", 10000)))
	add("deepInParams", []byte(`{"preferenceFunction":"owa","methodParameters":{"weights":`+strings.Repeat("[", 5000)+strings.Repeat("]", 5000)+`}}`))
	add("megabyteGarbage", bytes.Repeat([]byte("{\"x\":"), 200000))
	return out
}

// random structural mutations of valid requests: a field missing / null / mistyped / extreme
func mutate(r *rand.Rand, v interface{}, depth int) interface{} {
	repl := []interface{}{nil, "str", "", 123.0, -1.0, 0.0, 1e308, -1e308, 1e-320, []interface{}{}, M{}, true, strings.Repeat("z", 2000), []interface{}{nil}, M{"a": nil}}
	switch x := v.(type) {
	case map[string]interface{}:
		if len(x) == 0 || r.Intn(4) == 0 && depth > 0 {
			return repl[r.Intn(len(repl))]
		}
		keys := sortedKeysM(x)
		k := keys[r.Intn(len(keys))]
		if r.Intn(5) == 0 {
			delete(x, k)
			return x
		}
		x[k] = mutate(r, x[k], depth+1)
		return x
	case []interface{}:
		if len(x) == 0 || r.Intn(4) == 0 {
			return repl[r.Intn(len(repl))]
		}
		i := r.Intn(len(x))
		if r.Intn(6) == 0 {
			return append(x[:i:i], x[i+1:]...)
		}
		if r.Intn(8) == 0 {
			return append(x, x[i])
		}
		x[i] = mutate(r, x[i], depth+1)
		return x
	default:
		return repl[r.Intn(len(repl))]
	}
}

func mutationCases(r *rand.Rand, n int) []hostile {
	var out []hostile
	for i := 0; i < n; i++ {
		m := methods[i%len(methods)]
		var g *genReq
		if r.Intn(2) == 0 {
			g = validBase(m, r)
			g.M["biases"] = genBiasSeq(r, []string{pick(r, biasNames)}, g, genOpts{})
		} else {
			g = genRequest(r, genOpts{method: m, nBiases: r.Intn(3), minCrit: 2, maxCrit: 3, minAlt: 2, maxAlt: 4})
		}
		q := deepCopyM(g.M)
		for k := 0; k < 1+r.Intn(2); k++ {
			q = mutate(r, q, 0).(M)
		}
		// the documented exclusion holds for mutated requests as well: a level coefficient in (0, 1e-3) describes a series
		// that is finite but astronomically long (1e-320 from 0 advances in denormal steps), so whether its request is
		// "answered" would be decided by a time budget - such a coefficient is put back to a plain one
		if mp, ok := q["methodParameters"].(map[string]interface{}); ok {
			if lp, ok := mp["params"].(map[string]interface{}); ok {
				if cf, isNum := lp["coefficient"].(float64); isNum && cf > 0 && cf < 1e-3 {
					lp["coefficient"] = 0.25
				}
			}
		}
		b, err := json.Marshal(q)
		if err != nil {
			continue
		}
		out = append(out, hostile{kind: "mutation", body: b, expect: 0})
	}
	return out
}

func faultCases(r *rand.Rand) []hostile {
	valid := validBase("weightedSum", r).body()
	hdr := func(n int) string {
		return fmt.Sprintf("POST /api/decide HTTP/1.1\r\nHost: x\r\nContent-Type: application/json\r\nContent-Length: %d\r\n\r\n", n)
	}
	var out []hostile
	out = append(out, hostile{kind: "fault:abortMidBody", raw: []byte(hdr(len(valid)) + string(valid[:len(valid)/2]))})
	out = append(out, hostile{kind: "fault:halfClose", raw: []byte(hdr(len(valid)) + string(valid)), half: true})
	out = append(out, hostile{kind: "fault:contentLengthTooLarge", raw: []byte(hdr(len(valid)+500) + string(valid)), half: true})
	out = append(out, hostile{kind: "fault:pipelined", raw: []byte(hdr(len(valid)) + string(valid) + hdr(len(valid)) + string(valid) + hdr(3) + "{}x")})
	out = append(out, hostile{kind: "fault:garbageRequestLine", raw: []byte("\x16\x03\x01\x02\x00\x01\x00\x01\xfc\x03\x03 GET\r\n\r\n")})
	out = append(out, hostile{kind: "fault:chunkedBroken", raw: []byte("POST /api/decide HTTP/1.1\r\nHost: x\r\nTransfer-Encoding: chunked\r\n\r\nzz\r\n{}\r\n0\r\n\r\n")})
	out = append(out, hostile{kind: "fault:headersOnly", raw: []byte("POST /api/decide HTTP/1.1\r\nHost: x\r\nContent-Length: 10\r\n\r\n")})
	return out
}

func checkSchemaEndpoint(s *server) string {
	st, b, err := s.get("/api/preferenceFunctions")
	if err != nil {
		return "GET /api/preferenceFunctions got no answer: " + err.Error()
	}
	if st != 200 {
		return fmt.Sprintf("GET /api/preferenceFunctions answered %d", st)
	}
	var m map[string]interface{}
	if json.Unmarshal(b, &m) != nil {
		return "GET /api/preferenceFunctions is not a JSON object"
	}
	for _, name := range methods {
		sch, ok := m[name].(map[string]interface{})
		if !ok || len(sch) == 0 {
			return "GET /api/preferenceFunctions has no parameter schema for " + name
		}
	}
	if len(m) != len(methods) {
		return fmt.Sprintf("GET /api/preferenceFunctions lists %d methods, expected the seven", len(m))
	}
	return ""
}

func c20Batch(c *caseCtx) {
	r := c.rng
	var corpus []hostile
	nValid, nMut := 350, 700
	if c.tier == "thorough" {
		nValid, nMut = 1500, 3000
	}
	for i := 0; i < nValid; i++ {
		g := genRequest(r, genOpts{method: methods[i%len(methods)], nBiases: r.Intn(4), minCrit: 1, maxCrit: 4, minAlt: 1, maxAlt: 5})
		corpus = append(corpus, hostile{kind: "valid", body: g.body(), expect: 200, req: g.M})
	}
	corpus = append(corpus, constraintCases(r)...)
	corpus = append(corpus, malformedCases(r)...)
	corpus = append(corpus, mutationCases(r, nMut)...)
	corpus = append(corpus, faultCases(r)...)
	if c.idx == 0 {
		corpus = append(corpus, extremeCases(r, c.tier)...)
	}
	r.Shuffle(len(corpus), func(i, j int) { corpus[i], corpus[j] = corpus[j], corpus[i] })
	s, err := startServer()
	if err != nil {
		c.inconclusive("service did not start: " + err.Error())
		return
	}
	defer func() { s.stop() }()
	if msg := checkSchemaEndpoint(s); msg != "" {
		c.violate("schema-endpoint", msg, nil)
		return
	}
	sentLog := make([]string, 0, 4)
	for i, h := range corpus {
		desc := fmt.Sprintf("#%d %s", i, h.kind)
		if len(sentLog) == 4 {
			sentLog = sentLog[1:]
		}
		sentLog = append(sentLog, desc)
		c.count("evaluations", 1)
		c.count("sent:"+strings.SplitN(h.kind, ":", 2)[0], 1)
		detail := func() M {
			b := h.body
			if h.raw != nil {
				b = h.raw
			}
			if len(b) > 4000 {
				b = append(append([]byte{}, b[:2000]...), []byte(fmt.Sprintf("...(%d bytes)", len(b)))...)
			}
			return M{"kind": h.kind, "body": string(b), "last_sent": sentLog}
		}
		if h.raw != nil {
			s.rawSend(h.raw, h.half, 3e9)
			if !s.alive() {
				c.violate("service-died", "the service process exited after a client fault ("+h.kind+")", M{"kind": h.kind, "payload": string(h.raw), "service_output": s.logTail(1500)})
				return
			}
			c.distinct(h.kind)
			continue
		}
		cpu0 := s.cpuSeconds()
		res := s.post(h.body)
		if res.err != nil {
			dead := !s.alive()
			if !dead {
				// give the process a moment: a fatal error closes the connection slightly before the exit is observed
				select {
				case <-s.exited:
					dead = true
				case <-timeAfterMs(3000):
				}
			}
			if dead {
				d := detail()
				d["service_output"] = s.logTail(1500)
				c.violate("service-died", fmt.Sprintf("the request (%s) got no answer and the service process exited", h.kind), d)
				return
			}
			if s.cpuSeconds()-cpu0 > 30 {
				c.violate("no-answer", fmt.Sprintf("the request (%s) got no answer while the service burned more than 30 s of CPU time: %v", h.kind, res.err), detail())
				return
			}
			// alive, idle, no answer: ask the runtime what the handler is doing (SIGQUIT = goroutine dump, the batch ends here)
			if blocked, where := s.handlerBlocked(); blocked {
				d := detail()
				d["goroutine"] = where
				c.violate("no-answer", fmt.Sprintf("the request (%s) got no answer: its handler goroutine is parked (not running, nothing else of the service is running either) - it waits for something that never comes", h.kind), d)
				return
			}
			c.inconclusive(fmt.Sprintf("request %s got no answer (%v) but the process is alive and did not burn CPU", h.kind, res.err))
			return
		}
		body := bytes.TrimSpace(res.body)
		var parsed map[string]interface{}
		jerr := json.Unmarshal(body, &parsed)
		switch res.status {
		case 200:
			_, hasR := parsed["result"].([]interface{})
			_, hasB := parsed["biases"]
			if jerr != nil || !hasR || !hasB {
				c.violate("malformed-200", "a 200 response without result / biases", detail())
				return
			}
			if h.expect == 400 {
				d := detail()
				d["response"] = string(body[:minInt(len(body), 1500)])
				c.violate("invalid-accepted:"+h.kind, fmt.Sprintf("%s: the request violates a documented constraint but was answered with a ranking", h.kind), d)
				return
			}
			if h.kind == "valid" {
				if msg := wellFormed(h.req, parseResp(body)); msg != "" {
					c.count("other_property_issue:C01", 1)
				}
			}
		case 400:
			es, isStr := parsed["error"].(string)
			_, hasReq := parsed["request"]
			if jerr != nil || !isStr || !hasReq {
				c.violate("malformed-400", "a 400 response without an error string and the echoed request", detail())
				return
			}
			if h.expect == 200 {
				d := detail()
				d["error"] = es
				c.violate("valid-rejected", fmt.Sprintf("%s: a valid request was rejected: %s", h.kind, es), d)
				return
			}
			for _, n := range h.names {
				if !strings.Contains(es, n) {
					c.violate("names-not-listed", fmt.Sprintf("%s: the error message does not list the available name '%s': %s", h.kind, n, es), detail())
					return
				}
			}
			if strings.HasPrefix(h.kind, "constraint:") && h.expect == 400 {
				c.count("constraints_rejected", 1)
			}
		default:
			c.violate("unexpected-status", fmt.Sprintf("%s: status %d (neither 200 nor 400)", h.kind, res.status), detail())
			return
		}
		c.distinct(fmt.Sprintf("%s|%d", h.kind, res.status))
		if !s.alive() {
			c.violate("service-died", "the service process exited after answering "+h.kind, detail())
			return
		}
		if i%40 == 0 {
			s.truncateLog()
		}
		if i%100 == 99 {
			if msg := checkSchemaEndpoint(s); msg != "" {
				c.violate("schema-endpoint", msg+" (after "+desc+")", detail())
				return
			}
			c.count("liveness_probes", 1)
		}
	}
	if msg := checkSchemaEndpoint(s); msg != "" {
		c.violate("schema-endpoint", msg+" (at the end of the batch)", nil)
		return
	}
	c.count("liveness_probes", 1)
	c.count("batches", 1)
	c.count("nontrivial", 1)
	c.sample(M{"batch_size": len(corpus), "kinds": "valid / constraint / malformed / mutation / fault / extreme, shuffled", "example_constraint": string(constraintCases(r)[3].body)})
}

func minInt(a, b int) int {
	if a < b {
		return a
	}
	return b
}

func init() {
	register(&propDef{
		id: "C20",
		rule: "one real service process per batch receives a shuffled corpus: generated valid requests (must get 200 with result and biases), the constraint catalogue (each " +
			"documented constraint violated alone on an otherwise valid request, per applicable method: must get 400 with error string + echoed request, never 200; unknown " +
			"method / bias must list the available names), malformed bodies (truncations, wrong top-level types, depth 10^4, 1e999, NUL / bad UTF-8, 1 MB garbage), random " +
			"structural mutations of valid requests (missing / null / mistyped / extreme fields: any well-formed 200/400), raw-TCP client faults (abort mid-body, " +
			"half-close, oversized Content-Length, pipelining, broken chunking) and extreme requests (Choquet with 16/34/40/64 criteria and one weight, 1000 alternatives, " +
			"1e308 values, seeds +-2^63). After every request the child must be alive; GET /api/preferenceFunctions must list a schema for the seven methods before, every " +
			"100 requests and after. distinct = distinct (request kind, status).",
		assumptions: []string{"a request is 'unanswered' only if the child died or burned >30 s CPU without answering; a silent timeout without CPU use is inconclusive",
			"requests whose documented parameters make the computation astronomically long but finite (level coefficients between 1e-16 and 1e-3) are not sent: their verdict would depend on a time budget"},
		streams: []*stream{
			{name: "batches", n: tierN(4, 24), unit: 1, run: c20Batch, watchdog: 0,
				floors: map[string]int64{"batches": 4, "constraints_rejected": 600, "sent:valid": 1200, "sent:mutation": 2500, "sent:malformed": 200, "sent:fault": 20, "sent:extreme": 10}},
		},
	})
}

// renameCriterion gives a criterion of a catalogue request another id everywhere it is named: declaration, values,
// weights / ELECTRE entries / capacities (comma-joined, kept sorted), explicit levels
func renameCriterion(q M, from, to string) {
	for _, c := range q["criteria"].([]interface{}) {
		if c.(M)["id"] == from {
			c.(M)["id"] = to
		}
	}
	mv := func(m M) {
		if m == nil {
			return
		}
		for _, k := range sortedKeysM(m) {
			parts := strings.Split(k, ",")
			hit := false
			for i, p := range parts {
				if p == from {
					parts[i], hit = to, true
				}
			}
			if hit {
				sort.Strings(parts)
				v := m[k]
				delete(m, k)
				m[strings.Join(parts, ",")] = v
			}
		}
	}
	for _, a := range q["knownAlternatives"].([]interface{}) {
		mv(a.(M)["criteria"].(M))
	}
	mp := mpOf(q)
	if w, ok := mp["weights"].(M); ok {
		mv(w)
	}
	if e, ok := mp["electreCriteria"].(M); ok {
		mv(e)
	}
	if ps, ok := mp["params"].(M); ok {
		if ths, ok := ps["thresholds"].([]interface{}); ok {
			for _, t := range ths {
				mv(t.(M))
			}
		}
	}
}
