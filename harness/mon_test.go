package main

// Execution modes (lib, lib+decorators) and the monitoring decorators (DESIGN.md 2.1, 2.3).

import (
	"bytes"
	"encoding/json"
	"fmt"
	"io/ioutil"
	"log"
	"math/rand"
	"net/http/httptest"
	"os"
	"reflect"
	"regexp"
	"runtime"
	"sort"
	"strings"
	"sync"
	"unsafe"

	"github.com/gin-gonic/gin"

	"github.com/Azbesciak/RealDecisionMaker/lib/logic/limited-rationality/aspect-elimination"
	"github.com/Azbesciak/RealDecisionMaker/lib/logic/limited-rationality/majority"
	"github.com/Azbesciak/RealDecisionMaker/lib/logic/limited-rationality/satisfaction"
	"github.com/Azbesciak/RealDecisionMaker/lib/logic/preference-func/electreIII"
	"github.com/Azbesciak/RealDecisionMaker/lib/model"
	"github.com/Azbesciak/RealDecisionMaker/lib/utils"
)

// ---------------------------------------------------------------------------------------------
// snapshots

type altSnap struct {
	Id string             `json:"id"`
	V  map[string]float64 `json:"v"`
}

type critSnap struct {
	Id     string  `json:"id"`
	Cost   bool    `json:"cost"`
	Type   string  `json:"type"`
	HasRng bool    `json:"hasRange"`
	Lo     float64 `json:"lo"`
	Hi     float64 `json:"hi"`
}

type levelsView struct {
	Fn          string               `json:"fn"`
	Thresholds  []map[string]float64 `json:"thresholds,omitempty"`
	Coefficient float64              `json:"coefficient"`
	MinValue    float64              `json:"minValue"`
	MaxValue    float64              `json:"maxValue"`
}

type electreCritView struct {
	K          float64
	Q, P, V    float64
	HQ, HP, HV bool
	QA, PA, VA float64 // slopes (must be 0 in the claimed domain)
}

type paramView struct {
	OK            bool                       `json:"ok"`
	Why           string                     `json:"why,omitempty"`
	W             map[string]float64         `json:"w,omitempty"`      // per-criterion weight / k
	WOrder        []string                   `json:"wOrder,omitempty"` // order of the weighted-criteria list
	Choquet       map[string]float64         `json:"choquet,omitempty"`
	ChoquetCrit   []string                   `json:"choquetCrit,omitempty"`
	Electre       map[string]electreCritView `json:"electre,omitempty"`
	DistA, DistB  float64
	Levels        *levelsView `json:"levels,omitempty"`
	CurrentChoice string      `json:"currentChoice,omitempty"`
	Seed          int64       `json:"seed"`
	RandomOrder   bool        `json:"randomOrder"`
	Draw          string      `json:"draw,omitempty"`
}

type dmpSnap struct {
	Crit   []critSnap `json:"criteria"`
	Cons   []altSnap  `json:"considered"`
	NCons  []altSnap  `json:"notConsidered"`
	Params paramView  `json:"params"`
	// the weights / k the REQUEST configures, when this snapshot is what the first stage received: importances are then
	// computed with them, not with whatever the method made of them while parsing
	ReqW map[string]float64 `json:"-"`
}

func snapAlts(as []model.AlternativeWithCriteria) []altSnap {
	out := make([]altSnap, len(as))
	for i, a := range as {
		v := make(map[string]float64, len(a.Criteria))
		for k, x := range a.Criteria {
			v[k] = x
		}
		out[i] = altSnap{a.Id, v}
	}
	return out
}

func snapCrit(cs model.Criteria) []critSnap {
	out := make([]critSnap, len(cs))
	for i, c := range cs {
		s := critSnap{Id: c.Id, Cost: c.Type == model.Cost, Type: string(c.Type)}
		if c.ValuesRange != nil {
			s.HasRng, s.Lo, s.Hi = true, c.ValuesRange.Min, c.ValuesRange.Max
		}
		out[i] = s
	}
	return out
}

func takeSnap(method string, d *model.DecisionMakingParams) dmpSnap {
	if d == nil {
		return dmpSnap{}
	}
	return dmpSnap{Crit: snapCrit(d.Criteria), Cons: snapAlts(d.ConsideredAlternatives), NCons: snapAlts(d.NotConsideredAlternatives),
		Params: viewParams(method, d.MethodParameters)}
}

func (s *dmpSnap) all() []altSnap {
	return append(append([]altSnap{}, s.Cons...), s.NCons...)
}

func (s *dmpSnap) crit(id string) (critSnap, bool) {
	for _, c := range s.Crit {
		if c.Id == id {
			return c, true
		}
	}
	return critSnap{}, false
}

func (s *dmpSnap) critIds() []string {
	ids := make([]string, len(s.Crit))
	for i, c := range s.Crit {
		ids[i] = c.Id
	}
	return ids
}

// rng: declared range, else the range over all known alternatives
func (s *dmpSnap) rng(c critSnap) (float64, float64) {
	if c.HasRng {
		return c.Lo, c.Hi
	}
	lo, hi := 0.0, 0.0
	for i, a := range s.all() {
		v := a.V[c.Id]
		if i == 0 || v < lo {
			lo = v
		}
		if i == 0 || v > hi {
			hi = v
		}
	}
	return lo, hi
}

func snapEqualData(a, b *dmpSnap) string {
	if len(a.Crit) != len(b.Crit) {
		return "criteria count differs"
	}
	for i := range a.Crit {
		if a.Crit[i] != b.Crit[i] {
			return fmt.Sprintf("criterion %d differs: %+v vs %+v", i, a.Crit[i], b.Crit[i])
		}
	}
	cmp := func(x, y []altSnap, what string) string {
		if len(x) != len(y) {
			return what + " count differs"
		}
		for i := range x {
			if x[i].Id != y[i].Id {
				return fmt.Sprintf("%s[%d] id %s vs %s", what, i, x[i].Id, y[i].Id)
			}
			if len(x[i].V) != len(y[i].V) {
				return fmt.Sprintf("%s[%d] %s has %d vs %d values", what, i, x[i].Id, len(x[i].V), len(y[i].V))
			}
			for k, v := range x[i].V {
				if w, ok := y[i].V[k]; !ok || w != v {
					return fmt.Sprintf("%s %s/%s: %v vs %v", what, x[i].Id, k, v, w)
				}
			}
		}
		return ""
	}
	if m := cmp(a.Cons, b.Cons, "considered"); m != "" {
		return m
	}
	return cmp(a.NCons, b.NCons, "notConsidered")
}

// ---------------------------------------------------------------------------------------------
// reading the (partly opaque) parsed method parameters

func unsafeField(v reflect.Value, name string) (unsafe.Pointer, bool) {
	if v.Kind() != reflect.Struct {
		return nil, false
	}
	f := v.FieldByName(name)
	if !f.IsValid() || f.Kind() != reflect.Ptr {
		return nil, false
	}
	return unsafe.Pointer(f.Pointer()), true
}

func viewLevels(fn string, params interface{}) *levelsView {
	lv := &levelsView{Fn: fn}
	b, err := json.Marshal(params)
	if err != nil {
		return lv
	}
	var x struct {
		Thresholds  []map[string]float64 `json:"thresholds"`
		Coefficient float64              `json:"coefficient"`
		MinValue    float64              `json:"minValue"`
		MaxValue    float64              `json:"maxValue"`
	}
	json.Unmarshal(b, &x)
	lv.Thresholds, lv.Coefficient, lv.MinValue, lv.MaxValue = x.Thresholds, x.Coefficient, x.MinValue, x.MaxValue
	return lv
}

func copyW(w model.Weights) map[string]float64 {
	m := make(map[string]float64, len(w))
	for k, v := range w {
		m[k] = v
	}
	return m
}

func viewParams(method string, p interface{}) (pv paramView) {
	defer func() {
		if e := recover(); e != nil {
			pv = paramView{OK: false, Why: fmt.Sprint("layout: ", e)}
		}
	}()
	if p == nil {
		return paramView{Why: "nil parameters"}
	}
	switch x := p.(type) {
	case majority.MajorityHeuristicParams:
		return paramView{OK: true, W: copyW(x.Weights), CurrentChoice: x.CurrentChoice, Seed: x.RandomSeed, RandomOrder: x.RandomAlternativesOrdering, Draw: x.DrawResolution}
	case aspect_elimination.AspectEliminationHeuristicParams:
		return paramView{OK: true, W: copyW(x.Weights), Seed: x.RandomSeed, RandomOrder: x.RandomAlternativesOrdering, Levels: viewLevels(x.Function, x.Params)}
	case satisfaction.SatisfactionParameters:
		return paramView{OK: true, CurrentChoice: x.CurrentChoice, Seed: x.RandomSeed, RandomOrder: x.RandomAlternativesOrdering, Levels: viewLevels(x.Function, x.Params)}
	}
	v := reflect.ValueOf(p)
	if v.Kind() != reflect.Struct {
		return paramView{Why: "parameters are " + v.Kind().String()}
	}
	switch method {
	case "weightedSum":
		ptr, ok := unsafeField(v, "weightedCriteria")
		if !ok || ptr == nil {
			return paramView{Why: "weightedSumParams.weightedCriteria not found"}
		}
		wc := *(*model.WeightedCriteria)(ptr)
		pv = paramView{OK: true, W: map[string]float64{}}
		for _, c := range wc {
			pv.W[c.Id] = c.Weight
			pv.WOrder = append(pv.WOrder, c.Id)
		}
		return pv
	case "owa":
		f := v.FieldByName("Weights")
		if !f.IsValid() || f.Kind() != reflect.Ptr || f.IsNil() {
			return paramView{Why: "owaParams.Weights not found"}
		}
		wc := *(*model.WeightedCriteria)(unsafe.Pointer(f.Pointer()))
		pv = paramView{OK: true, W: map[string]float64{}}
		for _, c := range wc {
			pv.W[c.Id] = c.Weight
			pv.WOrder = append(pv.WOrder, c.Id)
		}
		return pv
	case "choquetIntegral":
		wp, ok1 := unsafeField(v, "weights")
		cp, ok2 := unsafeField(v, "criteria")
		if !ok1 || wp == nil {
			return paramView{Why: "choquetParams.weights not found"}
		}
		pv = paramView{OK: true, Choquet: copyW(*(*model.Weights)(wp))}
		if ok2 && cp != nil {
			for _, c := range *(*model.Criteria)(cp) {
				pv.ChoquetCrit = append(pv.ChoquetCrit, c.Id)
			}
		}
		return pv
	case "electreIII":
		f := v.FieldByName("Criteria")
		d := v.FieldByName("DistillationFun")
		if !f.IsValid() || f.Kind() != reflect.Ptr || f.IsNil() {
			return paramView{Why: "electreIIIParams.Criteria not found"}
		}
		ec := *(*electreIII.ElectreCriteria)(unsafe.Pointer(f.Pointer()))
		pv = paramView{OK: true, Electre: map[string]electreCritView{}, W: map[string]float64{}, DistA: -0.15, DistB: 0.3}
		for id, c := range ec {
			ev := electreCritView{K: c.K}
			ev.HQ, ev.Q, ev.QA = !(c.Q.A == 0 && c.Q.B == 0), c.Q.B, c.Q.A
			ev.HP, ev.P, ev.PA = !(c.P.A == 0 && c.P.B == 0), c.P.B, c.P.A
			ev.HV, ev.V, ev.VA = !(c.V.A == 0 && c.V.B == 0), c.V.B, c.V.A
			pv.Electre[id] = ev
			pv.W[id] = c.K
		}
		if d.IsValid() && d.Kind() == reflect.Ptr && !d.IsNil() {
			lf := *(*utils.LinearFunctionParameters)(unsafe.Pointer(d.Pointer()))
			pv.DistA, pv.DistB = lf.A, lf.B
		}
		return pv
	}
	return paramView{Why: "unknown parameter type " + v.Type().String()}
}

// ---------------------------------------------------------------------------------------------
// trace events

type listenerCall struct {
	Kind     string             `json:"kind"`
	Crit     string             `json:"criterion,omitempty"`
	CritType string             `json:"criterionType,omitempty"`
	Ref      string             `json:"reference,omitempty"`
	Left     []string           `json:"left,omitempty"`
	ParamsIn paramView          `json:"-"`
	Ranked   []string           `json:"ranked,omitempty"`
	RankedW  []float64          `json:"rankedW,omitempty"`
	Draws    []float64          `json:"draws,omitempty"`
	Added    json.RawMessage    `json:"added,omitempty"`
	Result   paramView          `json:"-"`
	RankedOn map[string]float64 `json:"-"`
}

type biasEvent struct {
	Pos        int             `json:"pos"`
	Name       string          `json:"name"`
	Props      M               `json:"props"`
	Orig       dmpSnap         `json:"-"`
	In         dmpSnap         `json:"in"`
	Out        dmpSnap         `json:"out"`
	Report     M               `json:"report"`
	ReportJSON json.RawMessage `json:"-"`
	NilReport  bool            `json:"nilReport"`
	SameDMP    bool            `json:"sameDMP"` // the bias handed its input object on unchanged
	Calls      []*listenerCall `json:"calls,omitempty"`
	liveOut    *model.DecisionMakingParams
	liveReport interface{}
	liveIn     *model.DecisionMakingParams
	liveOrig   *model.DecisionMakingParams
}

type evalEvent struct {
	Before  dmpSnap
	After   dmpSnap
	Ranking json.RawMessage
	Done    bool // Evaluate returned (false = it panicked)
}

type trace struct {
	method string
	Bias   []*biasEvent
	Eval   *evalEvent
	cur    *biasEvent
	yield  func()
	loose  []*listenerCall // listener calls outside any bias (should not happen)
}

func (t *trace) call(c *listenerCall) {
	if t.cur != nil {
		t.cur.Calls = append(t.cur.Calls, c)
	} else {
		t.loose = append(t.loose, c)
	}
}

// ---------------------------------------------------------------------------------------------
// decorators

type monBias struct {
	inner model.Bias
	tr    *trace
}

func (m *monBias) Identifier() string { return m.inner.Identifier() }

func jsonM(v interface{}) (M, json.RawMessage) {
	b, err := json.Marshal(v)
	if err != nil {
		return nil, nil
	}
	var out M
	json.Unmarshal(b, &out)
	return out, b
}

func (m *monBias) Apply(o, c *model.DecisionMakingParams, p *model.BiasProps, l *model.BiasListener) *model.BiasedResult {
	e := &biasEvent{Pos: len(m.tr.Bias), Name: m.Identifier(), liveIn: c, liveOrig: o}
	e.Orig = takeSnap(m.tr.method, o)
	e.In = takeSnap(m.tr.method, c)
	e.Props, _ = jsonM(*p)
	m.tr.Bias = append(m.tr.Bias, e)
	m.tr.cur = e
	if m.tr.yield != nil {
		m.tr.yield()
	}
	r := m.inner.Apply(o, c, p, l)
	if m.tr.yield != nil {
		m.tr.yield()
	}
	m.tr.cur = nil
	e.Out = takeSnap(m.tr.method, r.DMP)
	e.SameDMP = r.DMP == c
	e.liveOut, e.liveReport = r.DMP, r.Props
	if r.Props == nil {
		e.NilReport = true
	} else {
		e.Report, e.ReportJSON = jsonM(r.Props)
	}
	return r
}

type monListener struct {
	inner model.BiasListener
	tr    *trace
}

func (m *monListener) Identifier() string { return m.inner.Identifier() }

func (m *monListener) OnCriterionAdded(criterion *model.Criterion, ref *model.Criterion, params model.MethodParameters, gen utils.ValueGenerator) model.AddedCriterionParams {
	c := &listenerCall{Kind: "added", Crit: criterion.Id, CritType: string(criterion.Type), Ref: ref.Id, ParamsIn: viewParams(m.tr.method, params)}
	wrapped := func() float64 {
		v := gen()
		c.Draws = append(c.Draws, v)
		return v
	}
	m.tr.call(c)
	res := m.inner.OnCriterionAdded(criterion, ref, params, wrapped)
	_, c.Added = jsonM(res)
	return res
}

func (m *monListener) OnCriteriaRemoved(left *model.Criteria, params model.MethodParameters) model.MethodParameters {
	c := &listenerCall{Kind: "removed", ParamsIn: viewParams(m.tr.method, params)}
	for _, x := range *left {
		c.Left = append(c.Left, x.Id)
	}
	m.tr.call(c)
	res := m.inner.OnCriteriaRemoved(left, params)
	c.Result = viewParams(m.tr.method, res)
	return res
}

func (m *monListener) RankCriteriaAscending(params *model.DecisionMakingParams) *model.WeightedCriteria {
	c := &listenerCall{Kind: "rank"}
	m.tr.call(c)
	res := m.inner.RankCriteriaAscending(params)
	if res != nil {
		for _, w := range *res {
			c.Ranked = append(c.Ranked, w.Id)
			c.RankedW = append(c.RankedW, w.Weight)
		}
	}
	return res
}

func (m *monListener) Merge(params model.MethodParameters, addition model.MethodParameters) model.MethodParameters {
	c := &listenerCall{Kind: "merge", ParamsIn: viewParams(m.tr.method, params)}
	m.tr.call(c)
	res := m.inner.Merge(params, addition)
	c.Result = viewParams(m.tr.method, res)
	return res
}

type monFunc struct {
	inner model.PreferenceFunction
	tr    *trace
}

func (m *monFunc) Identifier() string            { return m.inner.Identifier() }
func (m *monFunc) MethodParameters() interface{} { return m.inner.MethodParameters() }
func (m *monFunc) ParseParams(dm *model.DecisionMaker) interface{} {
	return m.inner.ParseParams(dm)
}
func (m *monFunc) Evaluate(dmp *model.DecisionMakingParams) *model.AlternativesRanking {
	e := &evalEvent{Before: takeSnap(m.tr.method, dmp)}
	m.tr.Eval = e
	if m.tr.yield != nil {
		m.tr.yield()
	}
	r := m.inner.Evaluate(dmp)
	e.Done = true
	e.After = takeSnap(m.tr.method, dmp)
	if r != nil {
		e.Ranking, _ = json.Marshal(r)
	}
	return r
}

// decorated returns fresh decorated copies of the three registries of main.go, bound to tr
func decorated(tr *trace) (model.PreferenceFunctions, model.BiasListeners, *model.BiasMap) {
	fs := model.PreferenceFunctions{}
	for _, f := range funcs.Functions {
		fs.Functions = append(fs.Functions, &monFunc{inner: f, tr: tr})
	}
	ls := model.BiasListeners{}
	for _, l := range biasListeners.Listeners {
		ls.Listeners = append(ls.Listeners, &monListener{inner: l, tr: tr})
	}
	bm := model.BiasMap{}
	for k, b := range biases {
		bm[k] = &monBias{inner: b, tr: tr}
	}
	return fs, ls, &bm
}

// ---------------------------------------------------------------------------------------------
// running one decision through the library (what gin's binding + decideHandler do)

type respEntry struct {
	Alternative struct {
		Id       string             `json:"id"`
		Criteria map[string]float64 `json:"criteria"`
	} `json:"alternative"`
	Evaluation         map[string]interface{} `json:"evaluation"`
	BetterThanOrSameAs []string               `json:"betterThanOrSameAs"`
}

type respBias struct {
	Name             string      `json:"name"`
	Disabled         bool        `json:"disabled"`
	ApplyProbability float64     `json:"applyProbability"`
	Props            interface{} `json:"props"`
}

type respView struct {
	Result []respEntry `json:"result"`
	Biases []respBias  `json:"biases"`
}

type decision struct {
	OK     bool
	Err    string
	Choice *model.DecisionMakerChoice
	JSON   []byte
	View   *respView
	Trace  *trace
	dm     *model.DecisionMaker
	sent   *model.DecisionMaker // the request decoded once more from the body, never handed to the code under test
}

func parseResp(b []byte) *respView {
	var v respView
	if json.Unmarshal(b, &v) != nil {
		return nil
	}
	return &v
}

func decodeRequest(body []byte) (*model.DecisionMaker, error) {
	var dm model.DecisionMaker
	if err := json.Unmarshal(body, &dm); err != nil {
		return nil, err
	}
	return &dm, nil
}

// decideDM runs one decision under a deadlock detector: no decision of these workloads takes minutes, so when one has not
// returned after two minutes the runtime is asked what it is doing. Parked inside the library with nothing of the library
// running = it waits for something that never comes: the worker ends at once with that goroutine's stack (the supervisor
// re-runs the case alone and reports a reproduced block), instead of sitting out the 20-minute watchdog twice.
func decideDM(dm *model.DecisionMaker, tr *trace) decision {
	ch := make(chan decision, 1)
	go func() { ch <- decideDMInner(dm, tr) }()
	for {
		select {
		case d := <-ch:
			return d
		case <-timeAfterMs(120000):
			if where := parkedInLibrary(); where != "" {
				fmt.Fprintln(os.Stderr, "harness: a decision is blocked inside the library (its goroutine is parked, nothing of the library is running):\n"+where)
				os.Exit(3)
			}
		}
	}
}

// parkedInLibrary: a goroutine inside RealDecisionMaker/lib that has been parked for minutes while none is running there
func parkedInLibrary() string {
	buf := make([]byte, 8<<20)
	buf = buf[:runtime.Stack(buf, true)]
	parked, busy := "", false
	re := regexp.MustCompile(`^goroutine \d+ \[([^\],]+)(?:, (\d+) minutes)?`)
	for _, b := range strings.Split(string(buf), "\n\n") {
		m := re.FindStringSubmatch(strings.TrimSpace(b))
		if m == nil || !strings.Contains(b, "RealDecisionMaker/lib/") {
			continue
		}
		switch m[1] {
		case "running", "runnable", "syscall":
			busy = true
		default:
			if m[2] != "" && parked == "" {
				parked = b
				if len(parked) > 1800 {
					parked = parked[:1800]
				}
			}
		}
	}
	if busy {
		return ""
	}
	return parked
}

func decideDMInner(dm *model.DecisionMaker, tr *trace) (d decision) {
	d.dm = dm
	d.Trace = tr
	defer func() {
		if e := recover(); e != nil {
			d.OK = false
			d.Err = fmt.Sprint(e)
		}
	}()
	var res *model.DecisionMakerChoice
	if tr != nil {
		tr.method = dm.PreferenceFunction
		fs, ls, bm := decorated(tr)
		res = dm.MakeDecision(fs, ls, bm, utils.RandomBasedSeedValueGenerator)
	} else {
		res = dm.MakeDecision(funcs, biasListeners, &biases, utils.RandomBasedSeedValueGenerator)
	}
	d.Choice = res
	b, err := json.Marshal(res)
	if err != nil {
		d.Err = "marshal: " + err.Error()
		return
	}
	d.JSON = b
	d.View = parseResp(b)
	d.OK = true
	return
}

// viaService: decide() goes through decideHandler of main.go (gin binding, the handler's own request object, its recover
// and its JSON writer) instead of calling the library the way the handler does. Set per case by streams marked service.
var viaService bool

// decideService posts the body to the in-process handler. With a trace the three registries of main.go are replaced by
// decorated ones for the duration of the call (cases run one at a time in a worker). d.dm is the request as sent
// (decoded by the harness), not the handler's object: the oracles relate the response to the request on the wire.
func decideService(body []byte, withTrace bool) (d decision) {
	dm, err := decodeRequest(body)
	if err != nil {
		return decision{Err: "decode: " + err.Error()}
	}
	d.dm = dm
	d.sent = dm
	if withTrace {
		tr := &trace{method: dm.PreferenceFunction}
		d.Trace = tr
		fs, ls, bm := decorated(tr)
		of, ol, ob := funcs, biasListeners, biases
		funcs, biasListeners, biases = fs, ls, *bm
		defer func() { funcs, biasListeners, biases = of, ol, ob }()
	}
	code, out := httpInproc("POST", "/api/decide", body)
	if code == 200 {
		d.JSON = out
		d.View = parseResp(out)
		d.OK = d.View != nil
		if !d.OK {
			d.Err = "status 200 with a body that is not a decision"
		}
		return
	}
	var e struct {
		Error interface{} `json:"error"`
	}
	if json.Unmarshal(out, &e) == nil && e.Error != nil {
		d.Err = fmt.Sprint(e.Error)
	} else {
		d.Err = fmt.Sprintf("status %d: %.200s", code, out)
	}
	return
}

var serviceLogOnce sync.Once

// serviceHistory sends a few unrelated requests through the handler before a service case
func serviceHistory(r *rand.Rand, idx int, res *workerResult) {
	serviceLogOnce.Do(func() { log.SetOutput(ioutil.Discard) }) // the handler logs every request with %#v
	n := 1 + r.Intn(3)
	for k := 0; k < n; k++ {
		g := c02Gen(r, r.Intn(7000))
		body := g.body()
		switch r.Intn(10) {
		case 0, 1, 2:
			// a complete request (every optional field it carries is decoded) that is refused afterwards
			if r.Intn(2) == 0 {
				g.M["preferenceFunction"] = "noSuchMethod"
			} else {
				g.M["choseToMake"] = append([]interface{}{"ghost"}, g.M["choseToMake"].([]interface{})...)
			}
			body = g.body()
		case 3:
			body = body[:len(body)*(1+r.Intn(9))/10] // cut off: the binding fails after decoding a part of it
		}
		code, _ := httpInproc("POST", "/api/decide", body)
		res.Counters["service_history_requests"]++
		if code != 200 {
			res.Counters["service_history_rejected"]++
		}
	}
}

// decide runs a request body in lib mode; with trace==true through freshly decorated registries
func decide(body []byte, withTrace bool) decision {
	if viaService {
		return decideService(body, withTrace)
	}
	dm, err := decodeRequest(body)
	if err != nil {
		return decision{Err: "decode: " + err.Error()}
	}
	var tr *trace
	if withTrace {
		tr = &trace{}
	}
	d := decideDM(dm, tr)
	d.sent, _ = decodeRequest(body)
	return d
}

// ---------------------------------------------------------------------------------------------
// error classes (for the known-findings lookup and statistics)

var reNum = regexp.MustCompile(`[-+]?[0-9]+(\.[0-9]+)?([eE][-+]?[0-9]+)?`)
var reQ = regexp.MustCompile(`'[^']*'|\[[^\]]*\]|map\[.*|\{[^}]*\}`)

func errClass(s string) string {
	s = reQ.ReplaceAllString(s, "_")
	s = reNum.ReplaceAllString(s, "#")
	if len(s) > 90 {
		s = s[:90]
	}
	return s
}

// methodFailed: an in-domain request died inside the method's Evaluate (the biases before it all returned)
func methodFailed(d decision) bool {
	return !d.OK && d.Trace != nil && d.Trace.Eval != nil && !d.Trace.Eval.Done
}

func sortedStrings(xs []string) []string {
	out := append([]string{}, xs...)
	sort.Strings(out)
	return out
}

func setOf(xs []string) map[string]bool {
	m := map[string]bool{}
	for _, x := range xs {
		m[x] = true
	}
	return m
}

// ---------------------------------------------------------------------------------------------
// http-inproc mode: the real decideHandler / functionsHandler of main.go behind a gin engine, no network

var inprocOnce sync.Once
var inprocEngine *gin.Engine

func httpInproc(method, path string, body []byte) (int, []byte) {
	inprocOnce.Do(func() {
		inprocEngine = gin.New()
		api := inprocEngine.Group("/api")
		api.POST("/decide", decideHandler)
		api.GET("/preferenceFunctions", functionsHandler)
	})
	req := httptest.NewRequest(method, path, bytes.NewReader(body))
	req.Header.Set("Content-Type", "application/json")
	w := httptest.NewRecorder()
	inprocEngine.ServeHTTP(w, req)
	return w.Code, bytes.TrimSpace(w.Body.Bytes())
}
