package main

// Extra streams of C15..C18: reduced-request equivalence, by-probability frequency batteries,
// reversal involution, fatigue directions, random reference strategies.

import (
	"bytes"
	"encoding/json"
	"fmt"
	"math"
	"sort"
	"strings"
)

// ---------------------------------------------------------------------------------------------
// C15: the decision equals the one for the request with the omitted criteria deleted

func reducedRequest(g *genReq, out *dmpSnap) M {
	red := deepCopyM(g.M)
	delete(red, "biases")
	kept := map[string]bool{}
	for _, c := range out.Crit {
		kept[c.Id] = true
	}
	var rc []interface{}
	for _, c := range out.Crit { // criteria in the order the bias handed them on
		for _, oc := range red["criteria"].([]interface{}) {
			if oc.(map[string]interface{})["id"] == c.Id {
				rc = append(rc, oc)
			}
		}
	}
	red["criteria"] = rc
	for _, a := range red["knownAlternatives"].([]interface{}) {
		cv := a.(map[string]interface{})["criteria"].(map[string]interface{})
		for id := range cv {
			if !kept[id] {
				delete(cv, id)
			}
		}
	}
	rmp := red["methodParameters"].(map[string]interface{})
	keepKey := func(k string) bool {
		for _, p := range strings.Split(k, ",") {
			if !kept[p] {
				return false
			}
		}
		return true
	}
	for _, key := range []string{"weights", "electreCriteria"} {
		if w, ok := rmp[key].(map[string]interface{}); ok {
			for k := range w {
				if !keepKey(k) {
					delete(w, k)
				}
			}
		}
	}
	if p, ok := rmp["params"].(map[string]interface{}); ok {
		if ths, ok := p["thresholds"].([]interface{}); ok {
			for _, th := range ths {
				for k := range th.(map[string]interface{}) {
					if !kept[k] {
						delete(th.(map[string]interface{}), k)
					}
				}
			}
		}
	}
	return red
}

func c15Reduced(c *caseCtx) {
	method := methods[c.idx%len(methods)]
	o := genOpts{method: method, biasSeq: []string{"criteriaOmission"}, allFire: true, minCrit: 1, maxCrit: 6, minAlt: 1, maxAlt: 5, negValues: c.rng.Intn(3) == 0,
		distinctW: method == "aspectEliminationHeuristic", extraWeight: true}
	if method == "choquetIntegral" {
		o.maxCrit = 5
	}
	g := genRequest(c.rng, o)
	if c.idx%14 == 0 {
		g = c15DecimalTies(c)
	}
	d := decide(g.body(), true)
	c.count("evaluations", 1)
	if !d.OK {
		c.count("rejected", 1)
		return
	}
	if len(d.Trace.Bias) != 1 {
		c.inconclusive("omission did not fire exactly once")
		return
	}
	e := d.Trace.Bias[0]
	if len(e.Out.Crit) == 0 {
		c.count("outside_domain", 1)
		return
	}
	red := reducedRequest(g, &e.Out)
	g2 := &genReq{M: red, method: method}
	d2 := decide(g2.body(), false)
	c.count("evaluations", 1)
	if !d2.OK {
		c.violate("reduced-rejected", "the request with the omitted criteria deleted is rejected: "+d2.Err, M{"request": g.M, "reduced": red})
		return
	}
	a, _ := json.Marshal(d.Choice.Result)
	b, _ := json.Marshal(d2.Choice.Result)
	if !bytes.Equal(a, b) {
		c.violate("reduced-differs", "the ranking differs from the ranking of the request with the omitted criteria deleted",
			M{"request": g.M, "reduced": red, "biased_result": json.RawMessage(a), "reduced_result": json.RawMessage(b)})
		return
	}
	c.count("reduced_compared", 1)
	if (method == "weightedSum" || method == "owa" || method == "choquetIntegral") && (c.idx%14 == 0 || g.profile != profReals) {
		// a utility is a sum over the criteria: the reduced request may as well list the kept criteria in the order the
		// original request declares them (decimal-tie problems; exact data otherwise, so no sum depends on its order)
		pos := map[string]int{}
		for i, cs := range g.crits {
			pos[cs.id] = i
		}
		rc := append([]interface{}{}, red["criteria"].([]interface{})...)
		sort.SliceStable(rc, func(i, j int) bool { return pos[rc[i].(M)["id"].(string)] < pos[rc[j].(M)["id"].(string)] })
		red2 := deepCopyM(red)
		red2["criteria"] = rc
		d3 := decide((&genReq{M: red2, method: method}).body(), false)
		c.count("evaluations", 1)
		if !d3.OK {
			c.violate("reduced-rejected", "the request with the omitted criteria deleted (declaration order) is rejected: "+d3.Err, M{"request": g.M, "reduced": red2})
			return
		}
		b3, _ := json.Marshal(d3.Choice.Result)
		if !bytes.Equal(a, b3) {
			c.violate("reduced-differs", "the ranking differs from the ranking of the request with the omitted criteria deleted and the kept ones in their declared order",
				M{"request": g.M, "reduced": red2, "biased_result": json.RawMessage(a), "reduced_result": json.RawMessage(b3)})
			return
		}
		c.count("reduced_compared_in_declared_order", 1)
	}
	if len(e.Out.Crit) < len(e.In.Crit) {
		c.count("nontrivial", 1)
		c.count("reduced_nonempty", 1)
		c.distinct(fmt.Sprintf("red|%s|%d|%d|%s", method, len(e.In.Crit), len(e.Out.Crit), optionTag(g)))
	}
}

// c15DecimalTies: a weighted-sum problem whose alternatives carry the same multiset of decimal values (0.1 steps) in
// different places, so their utilities are equal on paper while the float sums depend on the order of addition; the criterion
// that gets omitted is the same for everybody. After the omission the kept criteria are handed on in importance order, in the
// reduced request they stand in declaration order: the decision must be the same (ties are ties after the 1e-8 rounding).
func c15DecimalTies(c *caseCtx) *genReq {
	r := c.rng
	nk := 3 + r.Intn(3)
	na := 2 + r.Intn(4)
	g := &genReq{method: "weightedSum", profile: profReals}
	var crit []interface{}
	w := M{}
	for j := 0; j <= nk; j++ {
		id := fmt.Sprintf("c%d", j)
		crit = append(crit, M{"id": id, "type": "gain"})
		g.crits = append(g.crits, critSpec{id: id})
		w[id] = float64(nk+2-j) + float64(r.Intn(3))*0.25 // heavier first: importance order is not declaration order
	}
	multiset := make([]float64, nk)
	for j := range multiset {
		multiset[j] = float64(r.Intn(10)) / 10
	}
	var alts, chose []interface{}
	for a := 0; a < na; a++ {
		cv := M{}
		for j, pj := range r.Perm(nk) {
			cv[fmt.Sprintf("c%d", j)] = multiset[pj]
		}
		cv[fmt.Sprintf("c%d", nk)] = 0.0 // the weakest criterion (importance 0): the one omitted
		id := fmt.Sprintf("a%d", a)
		alts = append(alts, M{"id": id, "criteria": cv})
		chose = append(chose, id)
		g.altIds = append(g.altIds, id)
		g.chose = append(g.chose, id)
	}
	g.M = M{"preferenceFunction": "weightedSum", "knownAlternatives": alts, "choseToMake": chose, "criteria": crit, "methodParameters": M{"weights": w},
		"biases": []interface{}{M{"name": "criteriaOmission", "props": M{"ratio": 1.0 / float64(nk+1), "min": 1, "max": 1}}}}
	c.count("decimal_tie_problems", 1)
	return g
}

// ---------------------------------------------------------------------------------------------
// frequency batteries: a problem whose criteria have importances 1 : 2 : 4 : 8 under the method's measure

func importanceProblem(method string) (*genReq, []string) {
	return importanceProblemW(method, []float64{1, 2, 4, 8})
}

func importanceProblemW(method string, w []float64) (*genReq, []string) {
	ids := []string{"c0", "c1", "c2", "c3"}
	g := &genReq{method: method}
	var crit []interface{}
	for _, id := range ids {
		crit = append(crit, M{"id": id, "type": "gain"})
		g.crits = append(g.crits, critSpec{id: id})
	}
	mp := M{}
	vals := func(a int) M {
		cv := M{}
		for i, id := range ids {
			switch method {
			case "owa", "satisfactionHeuristic":
				cv[id] = w[i] * float64(a+1) // summed values 1:2:4:8
			default:
				cv[id] = float64(a + 1)
			}
		}
		return cv
	}
	weights := M{}
	for i, id := range ids {
		weights[id] = w[i]
	}
	switch method {
	case "weightedSum", "majorityHeuristic":
		mp["weights"] = weights
	case "owa":
		mp["weights"] = M{"c0": 1.0, "c1": 1.0, "c2": 1.0, "c3": 1.0}
	case "aspectEliminationHeuristic":
		mp["weights"] = weights
		mp["function"] = "idealAdditiveCoefficient"
		mp["params"] = M{"minValue": 0.25, "maxValue": 0.75, "coefficient": 0.25}
	case "satisfactionHeuristic":
		mp["function"] = "idealSubtractiveCoefficient"
		mp["params"] = M{"minValue": 0.25, "maxValue": 0.75, "coefficient": 0.25}
	case "electreIII":
		ec := M{}
		for i, id := range ids {
			ec[id] = M{"k": w[i], "q": M{"b": 0.5}, "p": M{"b": 1.5}}
		}
		mp["electreCriteria"] = ec
	}
	alts := []interface{}{M{"id": "a0", "criteria": vals(0)}, M{"id": "a1", "criteria": vals(1)}, M{"id": "a2", "criteria": vals(2)}}
	g.altIds = []string{"a0", "a1", "a2"}
	g.chose = []string{"a0", "a1"}
	g.M = M{"preferenceFunction": method, "knownAlternatives": alts, "choseToMake": []interface{}{"a0", "a1"}, "criteria": crit, "methodParameters": mp}
	return g, ids
}

var freqMethods = []string{"majorityHeuristic", "electreIII", "weightedSum", "owa", "satisfactionHeuristic", "aspectEliminationHeuristic"}

// moreOften: count of the one that should come first more often must exceed the other by 3 sigma of the
// null hypothesis "equally often" (a correct implementation clears this by > 6 sigma of its own spread)
func moreOften(first, other int) bool {
	return float64(first-other) > 3*math.Sqrt(float64(first+other))
}

func c15Frequency(c *caseCtx) {
	method := freqMethods[(c.idx/2)%len(freqMethods)]
	ordering := []string{"weakestByProbability", "strongestByProbability"}[c.idx%2]
	g, ids := importanceProblem(method)
	if (c.idx/(2*len(freqMethods)))%2 == 1 && method != "electreIII" {
		// the least important criterion has importance exactly 0 (weight 0 / all values 0)
		g, ids = importanceProblemW(method, []float64{0, 1, 2, 4})
	}
	const N = 4000
	counts := map[string]int{}
	base := c.rng.Intn(1 << 20)
	for s := 0; s < N; s++ {
		g.M["biases"] = []interface{}{M{"name": "criteriaOmission", "props": M{"ordering": ordering, "ratio": 0.0, "min": 1, "max": 1, "randomSeed": base + s}}}
		d := decide(g.body(), true)
		c.count("evaluations", 1)
		if !d.OK || len(d.Trace.Bias) != 1 {
			c.violate("frequency-rejected", "frequency battery request rejected: "+d.Err, M{"request": g.M})
			return
		}
		om, _ := reportedCriteriaChanges(d.Trace.Bias[0])
		if len(om) != 1 {
			c.violate("omission-count", fmt.Sprintf("min=max=1 but %d criteria omitted", len(om)), M{"request": g.M})
			return
		}
		counts[om[0]]++
	}
	c.count("frequency_batteries", 1)
	c.count("nontrivial", 1)
	c.distinct(fmt.Sprintf("freq|%s|%s|%v", method, ordering, counts))
	for i := 0; i+1 < len(ids); i++ {
		less, more := counts[ids[i]], counts[ids[i+1]] // ids[i] is half as important as ids[i+1]
		ok := moreOften(less, more)
		if ordering == "strongestByProbability" {
			ok = moreOften(more, less)
		}
		if !ok {
			c.violate("probability-ordering", fmt.Sprintf("%s over %d seeds (%s): first-position counts %v do not favour the %s important of '%s' (importance x1) and '%s' (x2)",
				ordering, N, method, counts, map[bool]string{true: "less", false: "more"}[ordering == "weakestByProbability"], ids[i], ids[i+1]),
				M{"request": g.M, "counts": counts})
			return
		}
	}
	c.sample(M{"method": method, "ordering": ordering, "seeds": N, "first_position_counts": counts, "request": g.M})
}

// the probability orderings over MANY criteria (13..24: library sorts change strategy above a dozen elements): majority
// heuristic, weights 1, 2, .., n (importance = weight), half of the criteria omitted; over the seeds the three least
// important criteria are omitted more often than the three most important ones (weakestByProbability; the opposite for
// strongestByProbability)
func c15FrequencyLarge(c *caseCtx) {
	ordering := []string{"weakestByProbability", "strongestByProbability"}[c.idx%2]
	n := 13 + (c.idx/2*5)%12
	var crit []interface{}
	w := M{}
	cv := func(a int) M {
		m := M{}
		for j := 0; j < n; j++ {
			m[fmt.Sprintf("c%d", j)] = float64((a*7 + j*3) % 5)
		}
		return m
	}
	g := &genReq{method: "majorityHeuristic"}
	for j := 0; j < n; j++ {
		id := fmt.Sprintf("c%d", j)
		crit = append(crit, M{"id": id, "type": "gain"})
		g.crits = append(g.crits, critSpec{id: id})
		w[id] = float64(j + 1)
	}
	g.altIds, g.chose = []string{"a0", "a1", "a2"}, []string{"a0", "a1"}
	g.M = M{"preferenceFunction": "majorityHeuristic", "knownAlternatives": []interface{}{M{"id": "a0", "criteria": cv(0)}, M{"id": "a1", "criteria": cv(1)}, M{"id": "a2", "criteria": cv(2)}},
		"choseToMake": []interface{}{"a0", "a1"}, "criteria": crit, "methodParameters": M{"weights": w, "drawResolution": "allow"}}
	const N = 1500
	least, most := 0, 0
	base := c.rng.Intn(1 << 20)
	for s := 0; s < N; s++ {
		g.M["biases"] = []interface{}{M{"name": "criteriaOmission", "props": M{"ordering": ordering, "ratio": 0.5, "randomSeed": base + s}}}
		d := decide(g.body(), true)
		c.count("evaluations", 1)
		if !d.OK || len(d.Trace.Bias) != 1 {
			c.violate("frequency-rejected", "frequency battery request rejected: "+d.Err, M{"request": g.M})
			return
		}
		om, _ := reportedCriteriaChanges(d.Trace.Bias[0])
		if len(om) != n/2 {
			c.violate("omission-count", fmt.Sprintf("ratio 0.5 of %d criteria but %d omitted", n, len(om)), M{"request": g.M})
			return
		}
		for _, id := range om {
			var j int
			fmt.Sscanf(id, "c%d", &j)
			if j < 3 {
				least++
			}
			if j >= n-3 {
				most++
			}
		}
	}
	c.count("large_frequency_batteries", 1)
	c.count("nontrivial", 1)
	c.distinct(fmt.Sprintf("freqLarge|%d|%s", n, ordering))
	ok := moreOften(least, most)
	if ordering == "strongestByProbability" {
		ok = moreOften(most, least)
	}
	if !ok {
		c.violate("probability-ordering", fmt.Sprintf("%s over %d seeds with %d criteria (weights 1..%d, half omitted): the three least important criteria were omitted %d times, the three most important %d times",
			ordering, N, n, n, least, most), M{"criteria": n, "ordering": ordering, "least_important_omitted": least, "most_important_omitted": most})
		return
	}
	c.sample(M{"criteria": n, "ordering": ordering, "seeds": N, "least_important_omitted": least, "most_important_omitted": most})
}

// C16 with the probability orderings and TWO criteria (weights 1 and 2, importance = weight): reversal with ratio 0.5 selects
// exactly one; over the seeds weakestByProbability picks the less important one more often, strongestByProbability the more
// important one (with two elements "the opposite order" has no middle to hide in)
func c16FrequencyTwo(c *caseCtx) {
	ordering := []string{"weakestByProbability", "strongestByProbability"}[c.idx%2]
	method := []string{"majorityHeuristic", "aspectEliminationHeuristic", "electreIII"}[(c.idx/2)%3]
	g := &genReq{method: method}
	crit := []interface{}{M{"id": "c0", "type": "gain"}, M{"id": "c1", "type": "gain"}}
	g.crits = []critSpec{{id: "c0"}, {id: "c1"}}
	mp := M{}
	switch method {
	case "electreIII":
		mp["electreCriteria"] = M{"c0": M{"k": 1.0}, "c1": M{"k": 2.0}}
	case "aspectEliminationHeuristic":
		mp["weights"] = M{"c0": 1.0, "c1": 2.0}
		mp["function"] = "thresholds"
		mp["params"] = M{"thresholds": []interface{}{M{"c0": 1.0, "c1": 1.0}}}
	default:
		mp["weights"] = M{"c0": 1.0, "c1": 2.0}
	}
	g.altIds, g.chose = []string{"a0", "a1", "a2"}, []string{"a0", "a1"}
	g.M = M{"preferenceFunction": method, "knownAlternatives": []interface{}{M{"id": "a0", "criteria": M{"c0": 1.0, "c1": 4.0}}, M{"id": "a1", "criteria": M{"c0": 2.0, "c1": 3.0}}, M{"id": "a2", "criteria": M{"c0": 5.0, "c1": 1.0}}},
		"choseToMake": []interface{}{"a0", "a1"}, "criteria": crit, "methodParameters": mp}
	const N = 1500
	counts := map[string]int{}
	base := c.rng.Intn(1 << 20)
	for s := 0; s < N; s++ {
		g.M["biases"] = []interface{}{M{"name": "preferenceReversal", "props": M{"ordering": ordering, "ratio": 0.5, "randomSeed": base + s}}}
		d := decide(g.body(), true)
		c.count("evaluations", 1)
		if !d.OK || len(d.Trace.Bias) != 1 {
			c.violate("frequency-rejected", "frequency battery request rejected: "+d.Err, M{"request": g.M})
			return
		}
		rl, _ := d.Trace.Bias[0].Report["reversedPreferenceCriteria"].([]interface{})
		if len(rl) != 1 {
			c.violate("reversal-count", fmt.Sprintf("ratio 0.5 of two criteria but %d reversed", len(rl)), M{"request": g.M})
			return
		}
		counts[strOr(rl[0].(map[string]interface{}), "id", "")]++
	}
	c.count("two_criteria_frequency_batteries", 1)
	c.count("nontrivial", 1)
	c.distinct(fmt.Sprintf("freqTwo|%s|%s", method, ordering))
	ok := moreOften(counts["c0"], counts["c1"])
	if ordering == "strongestByProbability" {
		ok = moreOften(counts["c1"], counts["c0"])
	}
	if !ok {
		c.violate("probability-ordering", fmt.Sprintf("%s over %d seeds (%s, two criteria of importance 1 and 2): reversed %v", ordering, N, method, counts), M{"request": g.M, "counts": counts})
		return
	}
	c.sample(M{"method": method, "ordering": ordering, "seeds": N, "reversed_counts": counts})
}

// ---------------------------------------------------------------------------------------------
// C16: reversing the same criteria twice restores the data

func c16Involution(c *caseCtx) {
	method := methods[c.idx%len(methods)]
	o := genOpts{method: method, minCrit: 1, maxCrit: 5, minAlt: 1, maxAlt: 5, allCons: c.rng.Intn(3), negValues: c.rng.Intn(2) == 0}
	if method == "choquetIntegral" {
		o.maxCrit = 4
	}
	g := genRequest(c.rng, o)
	rev := func() M {
		return M{"name": "preferenceReversal", "props": M{"ratio": 1.0, "ordering": pick(c.rng, orderings), "randomSeed": c.rng.Intn(1000)}}
	}
	base := (&genReq{M: deepCopyM(g.M), method: method}).body()
	g.M["biases"] = []interface{}{rev(), rev()}
	d := decide(g.body(), true)
	c.count("evaluations", 1)
	if !d.OK {
		c.count("rejected", 1)
		// two plain full reversals are valid on every state: a request that is answered without them is answered with them
		if d0 := decide(base, false); d0.OK {
			c.violate("reversal-rejected", "the request is answered without biases but refused with two full preference reversals: "+d.Err, M{"request": g.M})
		}
		return
	}
	if len(d.Trace.Bias) != 2 {
		c.inconclusive("two reversals did not both fire")
		return
	}
	first, second := d.Trace.Bias[0], d.Trace.Bias[1]
	before, after := first.In.all(), second.Out.all()
	exact := g.profile != profReals
	for i, a := range before {
		for _, cr := range first.In.Crit {
			lo, hi := first.In.rng(cr)
			v, w := a.V[cr.Id], after[i].V[cr.Id]
			bad := v != w
			if !exact {
				bad = math.Abs(v-w) > 1e-9*(1+math.Abs(hi)+math.Abs(lo))
			}
			if bad {
				c.violate("reversal-involution", fmt.Sprintf("%s/%s: %v became %v after reversing every criterion twice (range [%v,%v])", a.Id, cr.Id, v, w, lo, hi), M{"request": g.M})
				return
			}
		}
	}
	c.count("involutions_checked", 1)
	c.count("nontrivial", 1)
	c.distinct(fmt.Sprintf("inv|%s|%d|%d|%s", method, len(first.In.Crit), len(before), g.profile))
}

// ---------------------------------------------------------------------------------------------
// C17: the seeded sign takes both directions

func c17Directions(c *caseCtx) {
	method := []string{"weightedSum", "majorityHeuristic", "electreIII", "satisfactionHeuristic"}[c.idx%4]
	g := genRequest(c.rng, genOpts{method: method, profile: profReals, minCrit: 5, maxCrit: 5, minAlt: 8, maxAlt: 8, negValues: c.rng.Intn(2) == 0})
	for _, a := range g.M["knownAlternatives"].([]interface{}) {
		cv := a.(M)["criteria"].(M)
		for k, v := range cv {
			if math.Abs(v.(float64)) < 0.01 {
				cv[k] = 1.5
			}
		}
	}
	g.M["biases"] = []interface{}{M{"name": "fatigue", "props": M{"function": "const", "params": M{"value": 0.5}, "randomSeed": c.rng.Intn(1 << 30)}}}
	d := decide(g.body(), true)
	c.count("evaluations", 1)
	if !d.OK {
		c.count("rejected", 1)
		return
	}
	st := &eventStats{}
	is := checkTrace(g.method, d.Trace, st)
	reportIssues(c, g, d, "C17", is, st)
	c.count("direction_cases", 1)
	c.count("nontrivial", 1)
	c.distinct(fmt.Sprintf("dir|%s|%d|%d", method, st.counts["fatigue_moved_up"], st.counts["fatigue_moved_down"]))
}

// ---------------------------------------------------------------------------------------------
// C18: the random reference-criterion strategies over many seeds

func c18Frequency(c *caseCtx) {
	method := []string{"majorityHeuristic", "electreIII"}[(c.idx/2)%2]
	strategy := []string{"randomUniform", "randomWeighted"}[c.idx%2]
	g, ids := importanceProblem(method)
	const N = 4000
	counts := map[string]int{}
	base := c.rng.Intn(1 << 20)
	for s := 0; s < N; s++ {
		key := "referenceCriterionType"
		if s%2 == 1 {
			key = "ReferenceCriterionType" // the README's spelling (property names are matched case-insensitively)
		}
		g.M["biases"] = []interface{}{M{"name": "criteriaConcealment", "props": M{key: strategy, "newCriterionRandomSeed": base + s, "randomSeed": s}}}
		d := decide(g.body(), true)
		c.count("evaluations", 1)
		if !d.OK || len(d.Trace.Bias) != 1 {
			c.violate("frequency-rejected", "frequency battery request rejected: "+d.Err, M{"request": g.M})
			return
		}
		calls := findCalls(d.Trace.Bias[0], "added")
		if len(calls) != 1 {
			c.inconclusive("listener call not observed")
			return
		}
		counts[calls[0].Ref]++
	}
	c.count("frequency_batteries", 1)
	c.count("nontrivial", 1)
	c.distinct(fmt.Sprintf("freq|%s|%s|%v", method, strategy, counts))
	total := 0
	for _, id := range ids {
		total += counts[id]
	}
	if total != N {
		c.violate("reference-not-existing", fmt.Sprintf("reference criteria outside the existing ones were used: %v", counts), M{"request": g.M})
		return
	}
	if strategy == "randomUniform" {
		p := 1.0 / float64(len(ids))
		sd := math.Sqrt(N * p * (1 - p))
		for _, id := range ids {
			if math.Abs(float64(counts[id])-N*p) > 6*sd {
				c.violate("reference-uniform", fmt.Sprintf("randomUniform over %d seeds chose '%s' %d times, expected %v +- %v (counts %v)", N, id, counts[id], N*p, 6*sd, counts), M{"request": g.M, "counts": counts})
				return
			}
		}
	} else {
		for i := 0; i+1 < len(ids); i++ {
			if !moreOften(counts[ids[i]], counts[ids[i+1]]) {
				c.violate("reference-weighted", fmt.Sprintf("randomWeighted over %d seeds: counts %v do not favour the less important of '%s' and '%s'", N, counts, ids[i], ids[i+1]), M{"request": g.M, "counts": counts})
				return
			}
		}
	}
	c.sample(M{"method": method, "strategy": strategy, "seeds": N, "reference_counts": counts})
}
