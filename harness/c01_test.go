package main

// C01 — every decision is a complete, well-formed ranking.

import (
	"fmt"
	"math/rand"
	"strings"
)

// expectedEntries: choseToMake plus the heuristic's currentChoice when one is given
func expectedEntries(req M) map[string]bool {
	exp := map[string]bool{}
	if cs, ok := req["choseToMake"].([]interface{}); ok {
		for _, c := range cs {
			if s, ok := c.(string); ok {
				exp[s] = true
			}
		}
	}
	method, _ := req["preferenceFunction"].(string)
	if method == "majorityHeuristic" || method == "satisfactionHeuristic" {
		if mp, ok := req["methodParameters"].(M); ok {
			if cc, ok := mp["currentChoice"].(string); ok && cc != "" {
				exp[cc] = true
			}
		}
	}
	return exp
}

// wellFormed is the C01 oracle on one accepted response
func wellFormed(req M, rs *respView) string {
	if rs == nil {
		return "response is not the documented JSON shape"
	}
	exp := expectedEntries(req)
	got := map[string]bool{}
	for _, e := range rs.Result {
		if got[e.Alternative.Id] {
			return fmt.Sprintf("alternative '%s' has two entries", e.Alternative.Id)
		}
		got[e.Alternative.Id] = true
	}
	for id := range exp {
		if !got[id] {
			return fmt.Sprintf("alternative '%s' has no entry", id)
		}
	}
	for id := range got {
		if !exp[id] {
			return fmt.Sprintf("entry for '%s' which is neither in choseToMake nor the current choice", id)
		}
	}
	for _, e := range rs.Result {
		seen := map[string]bool{}
		for _, b := range e.BetterThanOrSameAs {
			if b == e.Alternative.Id {
				return fmt.Sprintf("entry '%s' lists itself in betterThanOrSameAs", b)
			}
			if !got[b] {
				return fmt.Sprintf("entry '%s' links to '%s' which is not in result", e.Alternative.Id, b)
			}
			if seen[b] {
				return fmt.Sprintf("entry '%s' lists '%s' twice", e.Alternative.Id, b)
			}
			seen[b] = true
		}
	}
	return ""
}

func hasMutualLink(rs *respView) bool {
	links := map[string]map[string]bool{}
	for _, e := range rs.Result {
		links[e.Alternative.Id] = setOf(e.BetterThanOrSameAs)
	}
	for a, la := range links {
		for b := range la {
			if links[b][a] {
				return true
			}
		}
	}
	return false
}

func currentKind(g *genReq) string {
	mp := g.M["methodParameters"].(M)
	cc, _ := mp["currentChoice"].(string)
	if cc == "" {
		return "none"
	}
	for _, c := range g.chose {
		if c == cc {
			return "considered"
		}
	}
	return "notConsidered"
}

func linkShape(rs *respView) string {
	var sb strings.Builder
	for _, e := range rs.Result {
		fmt.Fprintf(&sb, "%d.", len(e.BetterThanOrSameAs))
	}
	return sb.String()
}

func c01Observe(c *caseCtx, g *genReq, d decision, extra string) {
	c.count("evaluations", 1)
	if !d.OK {
		c.count("rejected", 1)
		c.count("rejected:"+g.method, 1)
		return
	}
	c.count("accepted", 1)
	if msg := wellFormed(g.M, d.View); msg != "" {
		c.violate("malformed-ranking", msg, M{"request": g.M, "response": d.View})
		return
	}
	pol, _ := g.M["methodParameters"].(M)["drawResolution"].(string)
	nontrivial := len(d.View.Result) >= 2 && (hasMutualLink(d.View) || len(d.View.Result) >= 3)
	if nontrivial {
		c.count("nontrivial", 1)
		if hasMutualLink(d.View) {
			c.count("with_tie_group", 1)
		}
		c.distinct(g.method + "|" + pol + "|" + currentKind(g) + "|" + linkShape(d.View) + "|" + extra)
	}
	if c.idx%997 == 0 {
		c.sample(M{"request": g.M, "result": d.View.Result})
	}
}

// --- exhaustive majority tournament shapes -----------------------------------------------------
// One criterion of weight 1: the outcome of every comparison "running winner vs next" is chosen freely
// by the next alternative's value (higher = newer wins, lower = current wins, equal = draw). All
// outcome sequences of length 0..6 (n <= 7 alternatives) x 5 policies x 3 currentChoice kinds.

const majShapeMaxN = 7

var majShapePolicies = []string{"", "allow", "current", "newer", "random"}
var majShapeCurrent = []string{"none", "considered", "notConsidered"}

func majShapeSequences() [][]int {
	var seqs [][]int
	for n := 1; n <= majShapeMaxN; n++ {
		total := 1
		for i := 1; i < n; i++ {
			total *= 3
		}
		for code := 0; code < total; code++ {
			s := make([]int, n-1)
			x := code
			for i := range s {
				s[i] = x % 3
				x /= 3
			}
			seqs = append(seqs, s)
		}
	}
	return seqs
}

var majShapeSeqs = majShapeSequences()

func majShapeCount() int { return len(majShapeSeqs) * len(majShapePolicies) * len(majShapeCurrent) }

// majShapeCase builds the request for shape index idx
func majShapeCase(idx int) (*genReq, []int, string, string) {
	seq := majShapeSeqs[idx%len(majShapeSeqs)]
	idx /= len(majShapeSeqs)
	pol := majShapePolicies[idx%len(majShapePolicies)]
	idx /= len(majShapePolicies)
	cur := majShapeCurrent[idx%len(majShapeCurrent)]
	n := len(seq) + 1
	g := &genReq{method: "majorityHeuristic", profile: profTies}
	g.crits = []critSpec{{id: "c0"}}
	vals := make([]float64, n)
	vals[0] = 100
	win := 100.0
	for i, o := range seq {
		switch o {
		case 0: // newer better
			win++
			vals[i+1] = win
		case 1: // newer worse
			vals[i+1] = win - 1 - float64(i%2)
		case 2: // draw
			vals[i+1] = win
		}
	}
	var alts []interface{}
	var chose []interface{}
	for i := 0; i < n; i++ {
		id := fmt.Sprintf("a%d", i)
		g.altIds = append(g.altIds, id)
		alts = append(alts, M{"id": id, "criteria": M{"c0": vals[i]}})
		if !(cur == "notConsidered" && i == 0) {
			chose = append(chose, id)
			g.chose = append(g.chose, id)
		}
	}
	mp := M{"weights": M{"c0": 1.0}, "drawResolution": pol, "randomSeed": idx, "randomAlternativesOrdering": false}
	if cur != "none" {
		mp["currentChoice"] = "a0"
	}
	if cur == "notConsidered" && n == 1 {
		// a single known alternative that is only the current choice: choseToMake must not be empty
		alts = append(alts, M{"id": "b", "criteria": M{"c0": 50.0}})
		g.altIds = append(g.altIds, "b")
		chose = append(chose, "b")
		g.chose = append(g.chose, "b")
	}
	g.M = M{"preferenceFunction": "majorityHeuristic", "knownAlternatives": alts, "choseToMake": chose,
		"criteria": []interface{}{M{"id": "c0", "type": "gain"}}, "methodParameters": mp}
	return g, seq, pol, cur
}

func c01Random(c *caseCtx) {
	method := methods[c.idx%len(methods)]
	o := genOpts{method: method, nBiases: (c.idx / len(methods)) % 4, maxAlt: 7, minAlt: 1, minCrit: 1, maxCrit: 4, dupChosen: true, blankId: true, caseCrit: true}
	if c.rng.Intn(3) != 0 {
		o.profile = profTies
	}
	g := genRequest(c.rng, o)
	switch c.rng.Intn(40) {
	case 0:
		// no criteria at all: if the request is accepted, the ranking is still well-formed
		g.M["criteria"] = []interface{}{}
		delete(g.M, "biases")
		c.count("requests_without_criteria", 1)
	case 1:
		// nothing chosen, but a current choice: the heuristics still rank the current choice
		if method == "majorityHeuristic" || method == "satisfactionHeuristic" {
			g.M["choseToMake"] = []interface{}{}
			g.M["methodParameters"].(M)["currentChoice"] = g.altIds[c.rng.Intn(len(g.altIds))]
			g.chose = nil
			c.count("requests_with_current_choice_only", 1)
		}
	}
	d := decide(g.body(), false)
	c01Observe(c, g, d, "")
}

// large problems: implementations may change strategy (worker goroutines, batching, other sort algorithms) above a size
func c01Large(c *caseCtx) {
	method := methods[c.idx%len(methods)]
	n := 64 + c.rng.Intn(140)
	if method == "electreIII" {
		n = 64 + c.rng.Intn(30)
	}
	o := genOpts{method: method, nBiases: c.idx % 2, allFire: true, minAlt: n, maxAlt: n, minCrit: 2, maxCrit: 4, allCons: c.rng.Intn(3)}
	if c.rng.Intn(2) == 0 {
		o.profile = profTies
	}
	g := genRequest(c.rng, o)
	d := decide(g.body(), false)
	c.count("large_instances", 1)
	c01Observe(c, g, d, "large")
}

func c01TieBlocks(c *caseCtx) {
	// utility methods / ELECTRE with blocks of identical alternatives
	method := []string{"weightedSum", "owa", "choquetIntegral", "electreIII"}[c.idx%4]
	g := genRequest(c.rng, genOpts{method: method, profile: profTies, minAlt: 3, maxAlt: 8, minCrit: 1, maxCrit: 3, allCons: 1})
	alts := g.M["knownAlternatives"].([]interface{})
	// copy values so that blocks of equal alternatives exist
	for i := 1; i < len(alts); i++ {
		if c.rng.Intn(2) == 0 {
			src := alts[c.rng.Intn(i)].(M)["criteria"].(M)
			dst := M{}
			for k, v := range src {
				dst[k] = v
			}
			alts[i].(M)["criteria"] = dst
		}
	}
	d := decide(g.body(), false)
	c01Observe(c, g, d, "blocks")
}

func c01MajShapes(c *caseCtx) {
	g, seq, _, _ := majShapeCase(c.idx)
	d := decide(g.body(), false)
	if !d.OK {
		c.count("evaluations", 1)
		c.violate("rejected-valid", "majority shape request rejected: "+d.Err, M{"request": g.M})
		return
	}
	c01Observe(c, g, d, fmt.Sprint(seq))
}

func init() {
	register(&propDef{
		id: "C01",
		rule: "requests: 7 methods x 0..3 generated biases x value profiles (ties/dyadic/reals), currentChoice absent / considered / known-only; plus ALL majority " +
			"tournament outcome sequences (win/lose/draw)^(n-1), n<=7, x 5 draw policies x 3 currentChoice kinds (exhaustive stream); plus tie-block instances for the " +
			"utility methods and ELECTRE. A case is non-trivial when the accepted ranking has >=2 entries and a mutual-link tie group or >=3 entries; distinct = distinct " +
			"(method, draw policy, currentChoice kind, per-entry link counts in result order, shape tag).",
		assumptions: []string{"json.Unmarshal into model.DecisionMaker equals gin's ShouldBindJSON (no binding tags)", "the registries of main.go are used as they are"},
		streams: []*stream{
			{name: "random", n: tierN(28000, 1000000), unit: 7000, run: c01Random, floors: map[string]int64{"nontrivial": 2000, "with_tie_group": 300}},
			{name: "random-service", n: tierN(6000, 100000), unit: 3000, run: c01Random, service: true,
				note: "the same generator and oracle as the stream named in front of the dash, but every request goes through decideHandler of main.go in-process (gin binding, the handler's own request object) after a history of 1..3 unrelated requests (accepted and rejected)"},
			{name: "large", n: tierN(140, 2800), unit: 10, run: c01Large, floors: map[string]int64{"large_instances": 140},
				note: "64..203 known alternatives (ELECTRE 64..93), all methods, 0..1 fired biases"},
			{name: "tieBlocks", n: tierN(4000, 200000), unit: 4000, run: c01TieBlocks, floors: map[string]int64{"with_tie_group": 300}},
			{name: "majorityShapes", n: func(string) int { return majShapeCount() }, unit: 4000, run: c01MajShapes, exhaustive: true,
				note: "all outcome sequences of a one-criterion majority tournament for n<=7 alternatives x 5 policies x 3 currentChoice kinds"},
		},
	})
}

var _ = rand.Int
