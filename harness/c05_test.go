package main

// C05 — ELECTRE III indices follow the method's definition (reference-model monitor)
// C06 — dominance, equality, listing order, weight scaling (relational monitors)

import (
	"fmt"
	"math"
)

type electreOut struct {
	ids   []string
	asc   map[string]int
	desc  map[string]int
	links map[string][]string
}

func electreOutOf(v *respView) (*electreOut, string) {
	o := &electreOut{asc: map[string]int{}, desc: map[string]int{}, links: map[string][]string{}}
	for _, e := range v.Result {
		a, ok1 := e.Evaluation["ascendingIndex"].(float64)
		d, ok2 := e.Evaluation["descendingIndex"].(float64)
		if !ok1 || !ok2 || a != math.Trunc(a) || d != math.Trunc(d) {
			return nil, "ascendingIndex / descendingIndex missing or not integers"
		}
		o.ids = append(o.ids, e.Alternative.Id)
		o.asc[e.Alternative.Id] = int(a)
		o.desc[e.Alternative.Id] = int(d)
		o.links[e.Alternative.Id] = e.BetterThanOrSameAs
	}
	return o, ""
}

// structural part of C05: class numbers 1..m consecutive, links exactly the intersection of the preorders
func electreStructure(o *electreOut) string {
	for name, idx := range map[string]map[string]int{"ascendingIndex": o.asc, "descendingIndex": o.desc} {
		seen := map[int]bool{}
		mx := 0
		for _, v := range idx {
			seen[v] = true
			if v > mx {
				mx = v
			}
			if v < 1 {
				return fmt.Sprintf("%s %d is below 1", name, v)
			}
		}
		for k := 1; k <= mx; k++ {
			if !seen[k] {
				return fmt.Sprintf("%s values are not consecutive: class %d is empty (max %d)", name, k, mx)
			}
		}
	}
	for _, a := range o.ids {
		want := map[string]bool{}
		for _, b := range o.ids {
			if a != b && o.asc[a] <= o.asc[b] && o.desc[a] <= o.desc[b] {
				want[b] = true
			}
		}
		got := setOf(o.links[a])
		if len(got) != len(o.links[a]) || len(got) != len(want) {
			return fmt.Sprintf("links of %s are %v, expected exactly %v", a, o.links[a], keysOf(want))
		}
		for b := range want {
			if !got[b] {
				return fmt.Sprintf("links of %s are %v, expected exactly %v", a, o.links[a], keysOf(want))
			}
		}
	}
	return ""
}

func eCritsOf(s *dmpSnap) ([]eCrit, bool) {
	var cs []eCrit
	for _, c := range s.Crit {
		e, ok := s.Params.Electre[c.Id]
		if !ok {
			return nil, false
		}
		if e.QA != 0 || e.PA != 0 || e.VA != 0 {
			return nil, false // non-constant thresholds are outside the claimed domain
		}
		cs = append(cs, eCrit{id: c.Id, cost: c.Cost, k: e.K, q: e.Q, p: e.P, v: e.V, hq: e.HQ, hp: e.HP, hv: e.HV})
	}
	return cs, true
}

func c05Check(c *caseCtx, g *genReq, d decision) *electreOut {
	c.count("evaluations", 1)
	if !d.OK {
		c.count("rejected", 1)
		if methodFailed(d) {
			// the generated request is in the method's domain: failing inside Evaluate is not "ranking the alternatives"
			c.violate("method-failed:"+errClass(d.Err), "the method fails on an in-domain request instead of ranking: "+d.Err, M{"request": g.M})
		}
		return nil
	}
	o, msg := electreOutOf(d.View)
	if msg != "" {
		c.violate("electre-shape", msg, M{"request": g.M})
		return nil
	}
	if msg := electreStructure(o); msg != "" {
		c.violate("electre-structure", msg, M{"request": g.M, "result": d.View.Result})
		return nil
	}
	ev := d.Trace.Eval
	if ev == nil || !ev.Before.Params.OK {
		c.inconclusive("no readable evaluate event")
		return o
	}
	s := &ev.Before
	crits, ok := eCritsOf(s)
	if !ok {
		c.count("outside_domain", 1)
		return o
	}
	for _, cr := range crits {
		if !(cr.k > 0) || (cr.hv && !cr.hp) {
			c.count("outside_domain", 1)
			return o
		}
	}
	var alts []map[string]float64
	for _, a := range s.Cons {
		alts = append(alts, a.V)
	}
	wantA, wantB := -0.15, 0.3 // the documented default
	if df := subM(g.M["methodParameters"].(M), "electreDistillation"); df != nil {
		wantA, wantB = numOr(df, "a", 0), numOr(df, "b", 0)
	}
	if s.Params.DistA != wantA || s.Params.DistB != wantB {
		c.violate("electre-distillation-function", fmt.Sprintf("the distillation function in force is (a=%v, b=%v); the request specifies / defaults to (a=%v, b=%v)", s.Params.DistA, s.Params.DistB, wantA, wantB),
			M{"request": g.M})
		return o
	}
	sf := distFn{s.Params.DistA, s.Params.DistB}
	var hookSigma [][]float64
	if ids, sigma, ok := hookCredibility(s); ok {
		hookSigma = sigma
		// hook (build tag verif): the credibility matrix itself, before any distillation hides a deviation
		var mgc margins
		for i := range alts {
			for j := range alts {
				if i == j {
					continue
				}
				want := refCred(crits, alts[i], alts[j], &mgc)
				if math.Abs(sigma[i][j]-want) > 1e-9 {
					c.violate("electre-credibility", fmt.Sprintf("credibility of '%s outranks %s' is %v, the definition gives %v", ids[i], ids[j], sigma[i][j], want),
						M{"request": g.M, "evaluated_on": s})
					return o
				}
			}
		}
		c.count("credibility_matrices_checked", 1)
	}
	asc, desc, mg := refElectre(crits, alts, sf)
	if hookSigma != nil && len(hookSigma) == len(alts) {
		// distil the implementation's own matrix (it agrees with the definition within 1e-9, see above): comparisons between
		// its entries are exact, however close they are
		asc, desc, mg = refElectreOn(hookSigma, sf)
		c.count("distilled_from_hook_matrix", 1)
	}
	if mg.min != 0 && mg.min < 1e-9 {
		c.fragile()
		return o
	}
	c.count("compared_with_reference", 1)
	for i, a := range s.Cons {
		if o.asc[a.Id] != asc[i] || o.desc[a.Id] != desc[i] {
			gotA, gotD := make([]int, len(s.Cons)), make([]int, len(s.Cons))
			for j, x := range s.Cons {
				gotA[j], gotD[j] = o.asc[x.Id], o.desc[x.Id]
			}
			c.violate("electre-indices", fmt.Sprintf("indices differ from the ELECTRE III reference: ascending %v vs %v, descending %v vs %v", gotA, asc, gotD, desc),
				M{"request": g.M, "evaluated_on": s, "reference": M{"asc": asc, "desc": desc}, "got": M{"asc": gotA, "desc": gotD}})
			return o
		}
	}
	classes := 0
	for _, x := range asc {
		if x > classes {
			classes = x
		}
	}
	if len(alts) >= 3 {
		c.count("nontrivial", 1)
		c.distinct(fmt.Sprintf("%d|%d|%v|%v", len(alts), len(crits), asc, desc))
		if classes < len(alts) {
			c.count("with_exaequo", 1)
		}
	}
	if c.idx%2999 == 0 {
		c.sample(M{"request": g.M, "ascending": asc, "descending": desc})
	}
	return o
}

func c05Gen(c *caseCtx, nb int) *genReq {
	o := genOpts{method: "electreIII", minAlt: 1, maxAlt: 7, minCrit: 1, maxCrit: 5, nBiases: nb, allCons: c.rng.Intn(2), negValues: c.rng.Intn(4) == 0}
	switch c.rng.Intn(5) {
	case 0, 1:
		o.profile = profTies
	case 2, 3:
		o.profile = profDyadic
	default:
		o.profile = profReals
	}
	if c.rng.Intn(3) == 0 {
		// several criteria with veto thresholds: pairs with more than one discordant criterion
		o.vetoHeavy = true
		o.minCrit, o.maxCrit = 3, 5
		if o.profile == profTies {
			o.profile = profDyadic
		}
	}
	g := genRequest(c.rng, o)
	if c.rng.Intn(12) == 0 {
		// one criterion weighs 1e-10 of the others and the distillation function is (nearly) zero: credibilities of 1e-10
		// are small, not zero, and the cut levels walk down to them
		mp := g.M["methodParameters"].(M)
		ec := mp["electreCriteria"].(M)
		ids := sortedKeysM(ec)
		ec[ids[c.rng.Intn(len(ids))]].(M)["k"] = []float64{1e-10, 3e-9, 1e-12}[c.rng.Intn(3)]
		mp["electreDistillation"] = []M{{"a": 0.0, "b": 0.0}, {"b": 0.0}}[c.rng.Intn(2)]
		c.count("tiny_weight_instances", 1)
	}
	return g
}

func c05Random(c *caseCtx) {
	g := c05Gen(c, 0)
	c05Check(c, g, decide(g.body(), true))
}

// large instances: implementations may change strategy (worker goroutines, batching) above a size threshold
func c05Large(c *caseCtx) {
	n := 64 + c.rng.Intn(30)
	o := genOpts{method: "electreIII", minAlt: n, maxAlt: n, minCrit: 2, maxCrit: 4, allCons: 1, profile: []string{profTies, profDyadic, profReals}[c.rng.Intn(3)]}
	g := genRequest(c.rng, o)
	c05Check(c, g, decide(g.body(), true))
	c.count("large_instances", 1)
}

func c05AfterBiases(c *caseCtx) {
	g := c05Gen(c, 1+c.idx%2)
	c05Check(c, g, decide(g.body(), true))
}

// --- C06 ---------------------------------------------------------------------------------------

func signedVals(g *genReq, id string) []float64 {
	for _, a := range g.M["knownAlternatives"].([]interface{}) {
		if a.(M)["id"] == id {
			cv := a.(M)["criteria"].(M)
			out := make([]float64, len(g.crits))
			for i, cr := range g.crits {
				v := cv[cr.id].(float64)
				if cr.cost {
					v = -v
				}
				out[i] = v
			}
			return out
		}
	}
	return nil
}

func c06Case(c *caseCtx) { c06Run(c, c05Gen(c, 0)) }

// veto-heavy problems with a dominated copy: several discordant criteria on the same pair
func c06Veto(c *caseCtx) {
	o := genOpts{method: "electreIII", minAlt: 3, maxAlt: 6, minCrit: 3, maxCrit: 5, vetoHeavy: true, allCons: 1, profile: []string{profDyadic, profReals}[c.rng.Intn(2)], negValues: c.rng.Intn(4) == 0}
	c06Run(c, genRequest(c.rng, o))
}

// "human" weights in 0.05 steps, integer performances and thresholds: credibilities land exactly on cut levels, so a
// weight total that differs in the last bit (summed in another order) changes the indices
func c06Decimal(c *caseCtx) {
	g := genRequest(c.rng, genOpts{method: "electreIII", minAlt: 4, maxAlt: 7, minCrit: 3, maxCrit: 6, allCons: 1, profile: profTies, vetoHeavy: c.idx%3 == 0})
	mp := g.M["methodParameters"].(M)
	for _, e := range mp["electreCriteria"].(M) {
		e.(M)["k"] = float64(1+c.rng.Intn(12)) * 0.05
	}
	if c.idx%4 != 0 {
		delete(mp, "electreDistillation")
	}
	c.count("decimal_weight_instances", 1)
	c06Run(c, g)
}

// large problems with ties at high positions: index bookkeeping beyond 64 alternatives
func c06Large(c *caseCtx) {
	n := 65 + c.rng.Intn(16)
	g := genRequest(c.rng, genOpts{method: "electreIII", minAlt: n, maxAlt: n, minCrit: 2, maxCrit: 3, allCons: 1, profile: profTies, noRange: true})
	alts := g.M["knownAlternatives"].([]interface{})
	// the last three alternatives are identical and at least as good as everybody on every criterion
	best := M{}
	for _, cr := range g.crits {
		if cr.cost {
			best[cr.id] = -1.0
		} else {
			best[cr.id] = 3.0
		}
	}
	for i := n - 3; i < n; i++ {
		cv := M{}
		for k, v := range best {
			cv[k] = v
		}
		alts[i].(M)["criteria"] = cv
	}
	c.count("large_instances", 1)
	c06Run(c, g)
}

func c06Run(c *caseCtx, g *genReq) {
	alts := g.M["knownAlternatives"].([]interface{})
	// plant structure: a dominated copy (worse or equal everywhere) and sometimes an identical copy
	if len(alts) >= 2 && c.rng.Intn(2) == 0 {
		src := alts[0].(M)["criteria"].(M)
		dst := alts[len(alts)-1].(M)["criteria"].(M)
		ident := c.rng.Intn(3) == 0
		for _, cr := range g.crits {
			v := src[cr.id].(float64)
			if !ident && c.rng.Intn(2) == 0 {
				step := []float64{0.25, 1, 3}[c.rng.Intn(3)]
				if cr.cost {
					v += step
				} else {
					v -= step
				}
			}
			dst[cr.id] = v
		}
	}
	body := g.body()
	d := decide(body, false)
	c.count("evaluations", 1)
	if !d.OK {
		c.count("rejected", 1)
		if methodFailed(d) {
			// the generated request is in the method's domain: failing inside Evaluate is not "ranking the alternatives"
			c.violate("method-failed:"+errClass(d.Err), "the method fails on an in-domain request instead of ranking: "+d.Err, M{"request": g.M})
		}
		return
	}
	o, shapeMsg := electreOutOf(d.View)
	if shapeMsg != "" {
		c.violate("electre-shape", shapeMsg, M{"request": g.M})
		return
	}
	if len(o.ids) >= 3 {
		c.count("nontrivial", 1)
		c.distinct(fmt.Sprintf("%d|%d|%v|%v", len(o.ids), len(g.crits), o.asc, o.desc))
	}
	if c.idx%2999 == 0 {
		c.sample(M{"request": g.M, "result": d.View.Result})
	}
	// hook (build tag verif): credibility is monotone - if a is at least as good as b everywhere, a outranks any third
	// alternative at least as credibly as b does, and is outranked at most as credibly
	if hooksEnabled {
		tr := decide(body, true)
		if tr.OK && tr.Trace.Eval != nil && tr.Trace.Eval.Before.Params.OK {
			if ids, sigma, ok := hookCredibility(&tr.Trace.Eval.Before); ok {
				pos := map[string]int{}
				for i, id := range ids {
					pos[id] = i
				}
				for _, a := range ids {
					va := signedVals(g, a)
					for _, b := range ids {
						if a == b {
							continue
						}
						vb := signedVals(g, b)
						dom := true
						for i := range va {
							if va[i] < vb[i] {
								dom = false
							}
						}
						if !dom {
							continue
						}
						for _, x := range ids {
							if x == a || x == b {
								continue
							}
							if sigma[pos[a]][pos[x]] < sigma[pos[b]][pos[x]]-1e-12 || sigma[pos[x]][pos[a]] > sigma[pos[x]][pos[b]]+1e-12 {
								c.violate("credibility-not-monotone", fmt.Sprintf("%s is at least as good as %s on every criterion, but credibility(%s>%s)=%v < credibility(%s>%s)=%v or credibility(%s>%s)=%v > credibility(%s>%s)=%v",
									a, b, a, x, sigma[pos[a]][pos[x]], b, x, sigma[pos[b]][pos[x]], x, a, sigma[pos[x]][pos[a]], x, b, sigma[pos[x]][pos[b]]), M{"request": g.M})
								return
							}
							c.count("credibility_monotonicity_triples", 1)
						}
					}
				}
			}
		}
	}
	// (a) dominance, (b) identity
	for _, a := range o.ids {
		va := signedVals(g, a)
		for _, b := range o.ids {
			if a == b {
				continue
			}
			vb := signedVals(g, b)
			dom, same := true, true
			for i := range va {
				if va[i] < vb[i] {
					dom = false
				}
				if va[i] != vb[i] {
					same = false
				}
			}
			if dom {
				c.count("dominance_pairs", 1)
				if o.asc[a] > o.asc[b] || o.desc[a] > o.desc[b] {
					c.violate("dominance", fmt.Sprintf("%s is at least as good as %s on every criterion but is placed in a worse class (asc %d vs %d, desc %d vs %d)",
						a, b, o.asc[a], o.asc[b], o.desc[a], o.desc[b]), M{"request": g.M, "result": d.View.Result})
					return
				}
				if !setOf(o.links[a])[b] {
					c.violate("dominance-link", fmt.Sprintf("%s dominates %s but does not list it in betterThanOrSameAs", a, b), M{"request": g.M, "result": d.View.Result})
					return
				}
			}
			if same {
				c.count("identical_pairs", 1)
				if o.asc[a] != o.asc[b] || o.desc[a] != o.desc[b] {
					c.violate("identical", fmt.Sprintf("%s and %s have identical values but different indices", a, b), M{"request": g.M, "result": d.View.Result})
					return
				}
			}
		}
	}
	// (c) permutations of the alternatives
	for rep := 0; rep < 2; rep++ {
		p := deepCopyM(g.M)
		ka := p["knownAlternatives"].([]interface{})
		c.rng.Shuffle(len(ka), func(i, j int) { ka[i], ka[j] = ka[j], ka[i] })
		ch := p["choseToMake"].([]interface{})
		c.rng.Shuffle(len(ch), func(i, j int) { ch[i], ch[j] = ch[j], ch[i] })
		g2 := &genReq{M: p, method: g.method, crits: g.crits}
		d2 := decide(g2.body(), false)
		c.count("evaluations", 1)
		c.count("permutations", 1)
		if !d2.OK {
			c.violate("perm-rejected", "permuted request rejected: "+d2.Err, M{"request": g.M, "permuted": p})
			return
		}
		o2, msg := electreOutOf(d2.View)
		if msg != "" {
			c.violate("electre-shape", msg, M{"request": p})
			return
		}
		for _, a := range o.ids {
			if o.asc[a] != o2.asc[a] || o.desc[a] != o2.desc[a] {
				c.violate("perm-indices", fmt.Sprintf("indices of %s depend on the listing order: asc %d vs %d, desc %d vs %d", a, o.asc[a], o2.asc[a], o.desc[a], o2.desc[a]),
					M{"request": g.M, "permuted": p})
				return
			}
		}
	}
	// (d) every k multiplied by the same power of two
	{
		p := deepCopyM(g.M)
		m := math.Ldexp(1, c.rng.Intn(9)-3)
		if c.rng.Intn(2) == 0 {
			m = math.Ldexp(1, c.rng.Intn(121)-60) // any power of two: 2^-60 .. 2^60
		}
		for _, e := range p["methodParameters"].(M)["electreCriteria"].(M) {
			e.(M)["k"] = e.(M)["k"].(float64) * m
		}
		g2 := &genReq{M: p, method: g.method, crits: g.crits}
		d2 := decide(g2.body(), false)
		c.count("evaluations", 1)
		c.count("scalings", 1)
		if !d2.OK {
			c.violate("scale-rejected", "request with scaled weights rejected: "+d2.Err, M{"request": g.M, "scaled": p})
			return
		}
		o2, msg := electreOutOf(d2.View)
		if msg != "" {
			c.violate("electre-shape", msg, M{"request": p})
			return
		}
		for _, a := range o.ids {
			if o.asc[a] != o2.asc[a] || o.desc[a] != o2.desc[a] {
				c.violate("scale-indices", fmt.Sprintf("indices of %s change when every k is multiplied by %v", a, m), M{"request": g.M, "scaled": p})
				return
			}
		}
	}
}

const electreAssume = "reference = textbook ELECTRE III (not worse => concordant, veto product, set-based distillation) in float64 with the natural formula order; " +
	"an instance whose smallest non-zero comparison margin is below 1e-9 is skipped as fragile; thresholds with a slope are outside the claimed domain and skipped"

func init() {
	register(&propDef{
		id: "C05",
		rule: "electreIII requests with 1..7 alternatives, 1..5 criteria, gain/cost, q/p/v present or absent (veto only with p), ties / dyadic / real value profiles, default and " +
			"custom distillation functions, directly and after 1..2 biases (the reference runs on the data Evaluate received). Oracle: independent set-based ELECTRE III " +
			"reference + structural rules (classes 1..m consecutive, links = intersection of the two preorders). Non-trivial = >=3 alternatives; distinct = distinct " +
			"(#alternatives, #criteria, ascending vector, descending vector).",
		assumptions: []string{electreAssume},
		streams: []*stream{
			{name: "random", n: tierN(50000, 1600000), unit: 5000, run: c05Random, floors: map[string]int64{"compared_with_reference": 30000, "with_exaequo": 3000}},
			{name: "random-service", n: tierN(8000, 160000), unit: 4000, run: c05Random, service: true,
				note: "the same generator and oracle as the stream named in front of the dash, but every request goes through decideHandler of main.go in-process (gin binding, the handler's own request object) after a history of 1..3 unrelated requests (accepted and rejected)"},
			{name: "afterBiases-service", n: tierN(3000, 60000), unit: 1500, run: c05AfterBiases, service: true,
				note: "the same generator and oracle as the stream named in front of the dash, but every request goes through decideHandler of main.go in-process (gin binding, the handler's own request object) after a history of 1..3 unrelated requests (accepted and rejected)"},
			{name: "large", n: tierN(32, 400), unit: 2, run: c05Large, floors: map[string]int64{"large_instances": 32}, note: "64..93 alternatives, all considered"},
			{name: "afterBiases", n: tierN(10000, 400000), unit: 5000, run: c05AfterBiases, floors: map[string]int64{"compared_with_reference": 30000}},
		},
	})
	register(&propDef{
		id: "C06",
		rule: "C05's generator with planted dominated / identical alternatives; per instance: every dominating pair (a >= b on all criteria) must satisfy asc(a)<=asc(b), " +
			"desc(a)<=desc(b), b in links(a); identical alternatives identical indices; 2 random permutations of knownAlternatives/choseToMake and one scaling of all k by " +
			"2^m (m in -60..60) must leave every index unchanged. Only these relations are judged here (no reference model). Non-trivial = >=3 alternatives; distinct = " +
			"distinct (#alternatives, #criteria, index maps).",
		assumptions: []string{"scaling by a power of two is exact in binary floating point, so no tolerance is needed"},
		streams: []*stream{
			{name: "large", n: tierN(24, 240), unit: 2, run: c06Large, floors: map[string]int64{"large_instances": 24},
				note: "65..80 alternatives, tie-heavy, three identical dominating alternatives at the highest positions"},
			{name: "vetoDominance", n: tierN(60000, 800000), unit: 5000, run: c06Veto, floors: map[string]int64{"dominance_pairs": 10000},
				note: "every criterion has q, p and v; a dominated copy is planted in half of the instances"},
			{name: "decimalWeights", n: tierN(6000, 100000), unit: 1500, run: c06Decimal, floors: map[string]int64{"decimal_weight_instances": 5000},
				note: ">=3 criteria with k in 0.05 steps, integer performances, crisp integer thresholds, mostly the default distillation function: comparisons sit exactly on their boundary"},
			{name: "relations-service", n: tierN(4000, 60000), unit: 2000, run: c06Case, service: true,
				note: "the same generator and oracle as the stream named in front of the dash, but every request goes through decideHandler of main.go in-process (gin binding, the handler's own request object) after a history of 1..3 unrelated requests (accepted and rejected)"},
			{name: "relations", n: tierN(20000, 600000), unit: 2500, run: c06Case,
				floors: map[string]int64{"dominance_pairs": 10000, "identical_pairs": 500, "permutations": 30000, "scalings": 15000}},
		},
	})
}
