package main

// C08 — bias switches and apply-probabilities behave as documented.

import (
	"bytes"
	"encoding/json"
	"fmt"
	"math"
	"reflect"
)

func tinyProblem(method string) *genReq {
	g := &genReq{method: method}
	g.crits = []critSpec{{id: "c0"}, {id: "c1"}}
	g.altIds = []string{"a0", "a1", "a2"}
	g.chose = []string{"a0", "a1"}
	g.M = M{"preferenceFunction": method,
		"knownAlternatives": []interface{}{M{"id": "a0", "criteria": M{"c0": 1.0, "c1": 4.0}}, M{"id": "a1", "criteria": M{"c0": 2.0, "c1": 3.0}}, M{"id": "a2", "criteria": M{"c0": 5.0, "c1": 1.0}}},
		"choseToMake":       []interface{}{"a0", "a1"},
		"criteria":          []interface{}{M{"id": "c0", "type": "gain"}, M{"id": "c1", "type": "gain"}},
		"methodParameters":  M{"weights": M{"c0": 1.0, "c1": 2.0}}}
	return g
}

// a cheap bias that is valid on every state and reports non-null props when it fires
func cheapBias(r interface{ Intn(int) int }, p float64, withP bool) M {
	var b M
	if r.Intn(2) == 0 {
		b = M{"name": "fatigue", "props": M{"function": "const", "params": M{"value": float64(r.Intn(4)) / 8}, "randomSeed": r.Intn(100)}}
	} else {
		b = M{"name": "preferenceReversal", "props": M{"ratio": float64(r.Intn(3)) / 2, "ordering": pick2(r, []string{"weakest", "strongest", "random"})}}
	}
	if withP {
		b["applyProbability"] = p
	}
	return b
}

func pick2(r interface{ Intn(int) int }, xs []string) string { return xs[r.Intn(len(xs))] }

func disabledJunk(r interface{ Intn(int) int }) M {
	switch r.Intn(6) {
	case 3:
		return M{"disabled": true} // no name at all: a disabled entry is not looked at
	case 4:
		return M{"name": "", "disabled": true, "props": M{"ratio": 0.5}}
	case 5:
		return M{"name": "  ", "disabled": true}
	case 0:
		return M{"name": "noSuchBias", "disabled": true, "props": M{"x": 1}}
	case 1:
		return M{"name": "fatigue", "disabled": true, "applyProbability": 1.0, "props": M{"function": "const", "params": M{"value": 0.5}}}
	}
	return M{"name": "criteriaOmission", "disabled": true, "props": M{"ratio": 1.0}}
}

// firedPattern: which enabled positions fired (from the response: props non-null)
func firedPattern(d decision) []bool {
	out := make([]bool, len(d.View.Biases))
	for i, b := range d.View.Biases {
		out[i] = b.Props != nil
	}
	return out
}

func c08Echo(c *caseCtx) { c08EchoSized(c, 2, 4) }

// c08EchoSingle: the same with exactly one known alternative (nothing to compare, nothing to reverse between
// alternatives - a bias with probability 1 still fires and says so)
func c08EchoSingle(c *caseCtx) { c08EchoSized(c, 1, 1) }

func c08EchoSized(c *caseCtx, minAlt, maxAlt int) {
	method := methods[c.idx%len(methods)]
	g := genRequest(c.rng, genOpts{method: method, nBiases: 1 + c.rng.Intn(4), minCrit: 2, maxCrit: 4, minAlt: minAlt, maxAlt: maxAlt})
	if (method == "weightedSum" || method == "owa" || method == "choquetIntegral") && c.rng.Intn(12) == 0 {
		g.M["choseToMake"] = []interface{}{} // nothing to rank is still a request whose biases are processed and echoed
		g.chose = nil
	}
	bs := g.M["biases"].([]interface{})
	// sprinkle disabled entries (also unknown names) and explicit probabilities 0 / 1
	var withJunk []interface{}
	for _, b := range bs {
		if c.rng.Intn(3) == 0 {
			withJunk = append(withJunk, disabledJunk(c.rng))
		}
		bm := b.(M)
		switch c.rng.Intn(5) {
		case 0:
			bm["applyProbability"] = 0.0
		case 1:
			bm["applyProbability"] = 1.0
		case 2:
			bm["applyProbability"] = nil // an explicit null is "not given": the default 1 applies
		}
		withJunk = append(withJunk, bm)
	}
	if c.rng.Intn(25) == 0 {
		// an omission that takes every criterion away, directly followed by a concealment (which puts one back): the
		// concealment has probability 1, so it fires and says what it did
		withJunk = []interface{}{
			M{"name": "criteriaOmission", "props": M{"ratio": 1.0}},
			M{"name": "criteriaConcealment", "applyProbability": 1.0, "props": M{"randomSeed": c.rng.Intn(1000), "newCriterionRandomSeed": c.rng.Intn(1000)}},
		}
		c.count("omission_of_everything_then_concealment", 1)
		if c.rng.Intn(2) == 0 {
			// ... or by a preference reversal, which finds nothing to reverse, fires all the same and reports an empty selection
			withJunk[1] = M{"name": "preferenceReversal", "applyProbability": 1.0, "props": M{"ratio": 0.5, "ordering": pick2(c.rng, []string{"weakest", "strongest", "random"})}}
			c.count("omission_of_everything_then_reversal", 1)
		}
	}
	if c.rng.Intn(2) == 0 {
		withJunk = append(withJunk, disabledJunk(c.rng))
	}
	g.M["biases"] = withJunk
	d := decide(g.body(), true)
	c.count("evaluations", 1)
	if !d.OK {
		c.count("rejected", 1)
		c.count("rejected:"+errClass(d.Err), 1)
		return
	}
	// (a) one entry per non-disabled requested bias, in order, echoing name and probability (default 1)
	var enabled []M
	for _, b := range withJunk {
		if !boolOr(b.(M), "disabled", false) {
			enabled = append(enabled, b.(M))
		}
	}
	if len(d.View.Biases) != len(enabled) {
		c.violate("biases-count", fmt.Sprintf("%d entries in biases, %d non-disabled biases requested", len(d.View.Biases), len(enabled)), M{"request": g.M, "biases": d.View.Biases})
		return
	}
	// every entry carries its name and applyProbability in the response body itself
	var raw struct {
		Biases []map[string]interface{} `json:"biases"`
	}
	json.Unmarshal(d.JSON, &raw)
	for i, rb := range raw.Biases {
		_, hasN := rb["name"]
		_, hasP := rb["applyProbability"].(float64)
		if !hasN || !hasP {
			c.violate("biases-echo", fmt.Sprintf("biases[%d] of the response body lacks name / applyProbability: %v", i, rb), M{"request": g.M})
			return
		}
	}
	fired := 0
	for i, b := range enabled {
		r := d.View.Biases[i]
		wantP := numOr(b, "applyProbability", 1)
		if r.Name != b["name"] || r.ApplyProbability != wantP {
			c.violate("biases-echo", fmt.Sprintf("biases[%d] echoes (%s, %v), requested (%v, %v)", i, r.Name, r.ApplyProbability, b["name"], wantP), M{"request": g.M, "biases": d.View.Biases})
			return
		}
		if r.Props != nil {
			fired++
		}
		// (c) probability 1 always fires (mixing below two criteria legitimately reports null), probability 0 never
		if wantP == 0 && r.Props != nil {
			c.violate("fired-at-zero", fmt.Sprintf("biases[%d] %s has probability 0 but reports props", i, r.Name), M{"request": g.M})
			return
		}
		if wantP == 1 && r.Props == nil && r.Name != "criteriaMixing" {
			c.violate("not-fired-at-one", fmt.Sprintf("biases[%d] %s has probability 1 but reports null props", i, r.Name), M{"request": g.M})
			return
		}
	}
	// ground truth: Apply invocations seen by the decorators
	nullMixing := 0
	for _, e := range d.Trace.Bias {
		if e.NilReport {
			nullMixing++
		}
	}
	if len(d.Trace.Bias)-nullMixing != fired {
		c.violate("props-vs-apply", fmt.Sprintf("%d biases report props but %d were applied (%d of them mixing no-ops)", fired, len(d.Trace.Bias), nullMixing), M{"request": g.M})
		return
	}
	// an applied bias that reports null props (mixing below two criteria) hands on exactly the data and parameters it received
	for _, e := range d.Trace.Bias {
		if !e.NilReport {
			continue
		}
		diff := snapEqualData(&e.In, &e.Out)
		if diff == "" && !reflect.DeepEqual(e.In.Params, e.Out.Params) {
			diff = "method parameters differ"
		}
		if diff != "" {
			c.violate("null-props-changed-state", fmt.Sprintf("biases[%d] %s reports props: null but what it hands on differs from what it received: %s", e.Pos, e.Name, diff), M{"request": g.M})
			return
		}
		c.count("null_props_events_unchanged", 1)
	}
	// a bias that does not fire changes nothing: every stage receives exactly what the last fired stage handed on
	for _, is := range checkChain(d.Trace) {
		c.violate("not-fired-changed-state", is.msg, M{"request": g.M})
		return
	}
	// the service path (handler of main.go) answers with the same bytes as the library path - whatever it answered before
	if st, hb := httpInproc("POST", "/api/decide", g.body()); st != 200 || !bytes.Equal(hb, d.JSON) {
		c.violate("http-differs-from-library", fmt.Sprintf("the HTTP handler answers %d with other bytes than the library call for the same request", st), M{"request": g.M, "http": string(hb), "library": string(d.JSON)})
		return
	}
	c.count("http_path_compared", 1)
	c.count("echo_checked", 1)
	// (b) a disabled bias is equivalent to leaving it out
	p := deepCopyM(g.M)
	var only []interface{}
	for _, b := range p["biases"].([]interface{}) {
		if !boolOr(b.(map[string]interface{}), "disabled", false) {
			only = append(only, b)
		}
	}
	if len(only) != len(withJunk) {
		p["biases"] = only
		if only == nil {
			delete(p, "biases")
		}
		g2 := &genReq{M: p, method: method}
		d2 := decide(g2.body(), false)
		c.count("evaluations", 1)
		if !d2.OK || !bytes.Equal(d.JSON, d2.JSON) {
			c.violate("disabled-not-equivalent", "removing the disabled entries changes the response: "+d2.Err, M{"request": g.M, "without_disabled": p})
			return
		}
		c.count("disabled_equivalence_checked", 1)
	}
	c.count("nontrivial", 1)
	c.distinct(fmt.Sprintf("echo|%s|%v|%d", method, firedPattern(d), len(withJunk)))
	if c.idx%1499 == 0 {
		c.sample(M{"request_biases": withJunk, "response_biases": d.View.Biases})
	}
}

// biases that never fire (probability 0) change nothing: the answer - verdict and ranking - is the one of the request
// without biases, also for requests the service refuses (e.g. a method name it does not know as spelled)
func c08NeverFiring(c *caseCtx) {
	method := methods[c.idx%len(methods)]
	g := genRequest(c.rng, genOpts{method: method, nBiases: 1 + c.rng.Intn(3), minCrit: 1, maxCrit: 4, minAlt: 1, maxAlt: 4})
	var bs []interface{}
	for _, b := range g.M["biases"].([]interface{}) {
		b.(M)["applyProbability"] = 0.0
		bs = append(bs, b)
		if c.rng.Intn(3) == 0 {
			bs = append(bs, disabledJunk(c.rng))
		}
	}
	g.M["biases"] = bs
	switch c.rng.Intn(12) {
	case 0:
		g.M["preferenceFunction"] = method + " "
	case 1:
		g.M["preferenceFunction"] = " " + method
	case 2:
		g.M["preferenceFunction"] = "noSuchMethod"
	}
	d := decide(g.body(), false)
	p := deepCopyM(g.M)
	delete(p, "biases")
	d0 := decide((&genReq{M: p, method: method}).body(), false)
	c.count("evaluations", 2)
	if d.OK != d0.OK {
		c.violate("never-firing-changes-verdict", fmt.Sprintf("with biases that never fire (probability 0) the request is accepted=%v (%s), without them accepted=%v (%s)", d.OK, d.Err, d0.OK, d0.Err), M{"request": g.M})
		return
	}
	if !d.OK {
		c.count("never_firing_both_rejected", 1)
		return
	}
	for i, b := range d.View.Biases {
		if b.Props != nil {
			c.violate("fired-at-zero", fmt.Sprintf("biases[%d] %s has probability 0 but reports props", i, b.Name), M{"request": g.M})
			return
		}
	}
	a, _ := json.Marshal(d.View.Result)
	b, _ := json.Marshal(d0.View.Result)
	if !bytes.Equal(a, b) {
		c.violate("never-firing-changes-result", "biases that never fire change the ranking", M{"request": g.M, "with": string(a), "without": string(b)})
		return
	}
	c.count("never_firing_compared", 1)
	c.count("nontrivial", 1)
	c.distinct(fmt.Sprintf("never|%s|%d", method, len(bs)))
}

const c08Grid = 32

func thresholdOf(c *caseCtx, g *genReq, entries []M, pos int) (int, bool) {
	// firing pattern of enabled position pos over the probability grid; returns the first grid index that fires
	first := c08Grid + 1
	prev := false
	enabledIdx := -1
	n := 0
	for i, e := range entries {
		if !boolOr(e, "disabled", false) {
			if n == pos {
				enabledIdx = i
			}
			n++
		}
	}
	for k := 0; k <= c08Grid; k++ {
		p := float64(k) / c08Grid
		entries[enabledIdx]["applyProbability"] = p
		bs := make([]interface{}, len(entries))
		for i, e := range entries {
			bs[i] = e
		}
		g.M["biases"] = bs
		d := decide(g.body(), false)
		c.count("evaluations", 1)
		if !d.OK {
			c.violate("threshold-rejected", "request rejected: "+d.Err, M{"request": deepCopyM(g.M)})
			return 0, false
		}
		f := firedPattern(d)[pos]
		if prev && !f {
			c.violate("not-monotone", fmt.Sprintf("enabled position %d fires at probability %v but not at %v", pos, float64(k-1)/c08Grid, p), M{"request": deepCopyM(g.M)})
			return 0, false
		}
		if f && !prev {
			first = k
		}
		if k == 0 && f {
			c.violate("fired-at-zero", fmt.Sprintf("enabled position %d fires at probability 0", pos), M{"request": deepCopyM(g.M)})
			return 0, false
		}
		if k == c08Grid && !f {
			c.violate("not-fired-at-one", fmt.Sprintf("enabled position %d does not fire at probability 1", pos), M{"request": deepCopyM(g.M)})
			return 0, false
		}
		prev = f
	}
	return first, true
}

func c08Threshold(c *caseCtx) {
	method := []string{"weightedSum", "majorityHeuristic", "electreIII"}[c.idx%3]
	g := tinyProblem(method)
	if method == "electreIII" {
		g.M["methodParameters"] = M{"electreCriteria": M{"c0": M{"k": 1.0, "p": M{"b": 1.0}}, "c1": M{"k": 2.0}}}
	}
	g.M["biasApplyRandomSeed"] = c.rng.Intn(1 << 30)
	k := 1 + c.rng.Intn(4)
	entries := make([]M, k)
	for i := range entries {
		entries[i] = cheapBias(c.rng, float64(c.rng.Intn(9))/8, c.rng.Intn(2) == 0)
	}
	pos := c.rng.Intn(k)
	t0, ok := thresholdOf(c, g, entries, pos)
	if !ok {
		return
	}
	// (e) independence: mutate the other entries (names, props, probabilities), insert disabled entries anywhere
	for rep := 0; rep < 2; rep++ {
		var mutated []M
		n := 0
		for i := range entries {
			for c.rng.Intn(3) == 0 {
				mutated = append(mutated, disabledJunk(c.rng))
			}
			if n == pos {
				mutated = append(mutated, deepCopyM(entries[i]))
			} else {
				mutated = append(mutated, cheapBias(c.rng, float64(c.rng.Intn(9))/8, c.rng.Intn(2) == 0))
			}
			n++
		}
		if c.rng.Intn(2) == 0 {
			mutated = append(mutated, disabledJunk(c.rng))
		}
		if c.rng.Intn(2) == 0 { // more enabled entries after it do not matter either
			mutated = append(mutated, cheapBias(c.rng, 0.5, true))
		}
		t1, ok := thresholdOf(c, g, mutated, pos)
		if !ok {
			return
		}
		if t1 != t0 {
			c.violate("not-independent", fmt.Sprintf("enabled position %d starts firing at grid step %d/32, but at %d/32 after the other entries were changed", pos, t0, t1),
				M{"seed": g.M["biasApplyRandomSeed"], "position": pos, "entries": entries, "mutated": mutated})
			return
		}
		c.count("independence_checked", 1)
	}
	c.count("thresholds_checked", 1)
	c.count("nontrivial", 1)
	c.distinct(fmt.Sprintf("thr|%s|%d|%d|%d", method, k, pos, t0))
}

func c08Frequency(c *caseCtx) {
	ps := []float64{0.1, 0.25, 0.5, 0.75, 0.9}
	p := ps[c.idx%len(ps)]
	pos := (c.idx / len(ps)) % 4
	const N = 6000
	g := tinyProblem("weightedSum")
	entries := make([]interface{}, 4)
	fires := 0
	base := c.rng.Intn(1 << 30)
	for s := 0; s < N; s++ {
		for i := range entries {
			q := float64(c.rng.Intn(9)) / 8
			if i == pos {
				q = p
			}
			entries[i] = M{"name": "fatigue", "applyProbability": q, "props": M{"function": "const", "params": M{"value": 0.25}, "randomSeed": s}}
		}
		g.M["biases"] = entries
		g.M["biasApplyRandomSeed"] = base + s
		d := decide(g.body(), false)
		c.count("evaluations", 1)
		if !d.OK {
			c.violate("frequency-rejected", "request rejected: "+d.Err, M{"request": g.M})
			return
		}
		if firedPattern(d)[pos] {
			fires++
		}
	}
	sd := math.Sqrt(N * p * (1 - p))
	c.count("frequency_batteries", 1)
	c.count("nontrivial", 1)
	c.distinct(fmt.Sprintf("freq|%v|%d|%d", p, pos, fires))
	if math.Abs(float64(fires)-N*p) > 6*sd {
		c.violate("frequency", fmt.Sprintf("enabled position %d with probability %v fired %d times over %d seeds, expected %v +- %v", pos, p, fires, N, N*p, 6*sd),
			M{"probability": p, "position": pos, "seeds": N, "first_seed": base, "fires": fires})
		return
	}
	c.sample(M{"probability": p, "position": pos, "seeds": N, "fires": fires})
}

// firing depends only on the seed, the position and the probability - not on which other seeds a process served
// before: two fresh service processes get the same requests in opposite orders (the seeds come in families that
// agree in their low 31 / 32 bits)
func c08Processes(c *caseCtx) {
	type reqT struct {
		seed int64
		body []byte
	}
	var reqs []reqT
	for b := 0; b < 24; b++ {
		base := int64(c.rng.Intn(100000))
		for _, off := range []int64{0, 1 << 31, 1 << 32, -(1 << 31)} {
			g := tinyProblem("weightedSum")
			var bs []interface{}
			for i := 0; i < 12; i++ {
				bs = append(bs, M{"name": "fatigue", "applyProbability": 0.5, "props": M{"function": "const", "params": M{"value": 0.25}, "randomSeed": i}})
			}
			g.M["biases"] = bs
			g.M["biasApplyRandomSeed"] = base + off
			reqs = append(reqs, reqT{base + off, g.body()})
		}
	}
	patterns := make([]map[int64]string, 2)
	for p := 0; p < 2; p++ {
		s, err := startServer()
		if err != nil {
			c.inconclusive("service did not start: " + err.Error())
			return
		}
		patterns[p] = map[int64]string{}
		order := make([]int, len(reqs))
		for i := range order {
			order[i] = i
			if p == 1 {
				order[i] = len(reqs) - 1 - i
			}
		}
		for _, i := range order {
			r := s.post(reqs[i].body)
			c.count("evaluations", 1)
			if r.err != nil || r.status != 200 {
				s.stop()
				c.violate("threshold-rejected", fmt.Sprintf("request rejected by the service: %d %v", r.status, r.err), M{"seed": reqs[i].seed})
				return
			}
			v := parseResp(bytes.TrimSpace(r.body))
			pat := ""
			for _, b := range v.Biases {
				if b.Props != nil {
					pat += "1"
				} else {
					pat += "0"
				}
			}
			patterns[p][reqs[i].seed] = pat
		}
		s.stop()
	}
	for _, rq := range reqs {
		if patterns[0][rq.seed] != patterns[1][rq.seed] {
			c.violate("firing-depends-on-history", fmt.Sprintf("biasApplyRandomSeed %d: firing pattern %s in one process, %s in another that served the same requests in the opposite order",
				rq.seed, patterns[0][rq.seed], patterns[1][rq.seed]), M{"seed": rq.seed})
			return
		}
		// cross-check with the library path of this process
		d := decide(rq.body, false)
		if d.OK {
			pat := ""
			for _, f := range firedPattern(d) {
				if f {
					pat += "1"
				} else {
					pat += "0"
				}
			}
			if pat != patterns[0][rq.seed] {
				c.violate("firing-depends-on-history", fmt.Sprintf("biasApplyRandomSeed %d: firing pattern %s in the service, %s through the library", rq.seed, patterns[0][rq.seed], pat), M{"seed": rq.seed})
				return
			}
		}
	}
	c.count("seed_families_cross_process", len(reqs)/4)
	c.count("nontrivial", 1)
	c.distinct(fmt.Sprintf("proc|%d", c.idx))
}

func init() {
	register(&propDef{
		id: "C08",
		rule: "stream echo: generated bias lists (all 6 biases, 7 methods) with disabled entries (also unknown names) sprinkled in and explicit probabilities 0 / 1: response " +
			"biases = non-disabled requests in order with name/probability echoed, p=1 fires, p=0 does not, props non-null exactly for applied biases (decorator ground " +
			"truth), removing disabled entries leaves the bytes unchanged, the handler of main.go (in-process gin engine) answers with the same bytes as the library. Stream threshold: for a seed and an enabled position the firing pattern over p = 0,1/32,..,1 " +
			"must be monotone, start after 0, include 1, and its switching point must not move when the other entries are replaced and disabled entries inserted. Stream " +
			"frequency: p in {0.1,0.25,0.5,0.75,0.9} x positions 0..3 over 6000 seeds, rate within 6 sigma. Non-trivial = every case; distinct = (stream, method, pattern / " +
			"position / switching point / count).",
		assumptions: []string{"cheap always-valid biases (const fatigue, reversal) are used where firing is read from props != null"},
		streams: []*stream{
			{name: "echo", n: tierN(14000, 300000), unit: 3500, run: c08Echo, floors: map[string]int64{"echo_checked": 8000, "disabled_equivalence_checked": 4000, "http_path_compared": 8000}},
			{name: "echo-service", n: tierN(3000, 50000), unit: 1500, run: c08Echo, service: true,
				note: "the same generator and oracle as the stream named in front of the dash, but every request goes through decideHandler of main.go in-process (gin binding, the handler's own request object) after a history of 1..3 unrelated requests (accepted and rejected)"},
			{name: "echoSingle", n: tierN(3500, 60000), unit: 1750, run: c08EchoSingle, floors: map[string]int64{"echo_checked": 2000},
				note: "the echo stream on requests with exactly one known alternative: every bias with probability 1 fires and reports props (fast paths for 'nothing to compare')"},
			{name: "neverFiring", n: tierN(4000, 60000), unit: 2000, run: c08NeverFiring, floors: map[string]int64{"never_firing_compared": 2500},
				note: "1..3 biases with probability 0 (plus disabled entries) against the same request without biases: same verdict, same result; ~17% with a method name the service does not know as spelled"},
			{name: "threshold", n: tierN(600, 12000), unit: 75, run: c08Threshold, floors: map[string]int64{"thresholds_checked": 500, "independence_checked": 1000}},
			{name: "frequency", n: tierN(20, 200), unit: 2, run: c08Frequency, floors: map[string]int64{"frequency_batteries": 20}},
			{name: "processes", n: tierN(2, 12), unit: 1, run: c08Processes, floors: map[string]int64{"seed_families_cross_process": 40},
				note: "two fresh service processes serve 96 requests (24 seed families agreeing in their low 31/32 bits) in opposite orders; firing patterns must agree"},
		},
	})
}
