package main

// Independent ELECTRE III reference (set-based, textbook formulation) with comparison-margin tracking.

import "math"

type eCrit struct {
	id         string
	cost       bool
	k          float64
	q, p, v    float64
	hq, hp, hv bool
}

type margins struct{ min float64 } // smallest non-zero |difference| of any comparison that decided something

func (m *margins) see(d float64) {
	d = math.Abs(d)
	if d != 0 && (m.min == 0 || d < m.min) {
		m.min = d
	}
}

// partial concordance / discordance of "a outranks b" on one criterion (raw values ga, gb)
func refPartial(c eCrit, ga, gb float64, mg *margins) (cj, dj float64) {
	if c.cost {
		ga, gb = -ga, -gb
	}
	diff := gb - ga // how much b is better than a
	if diff <= 0 {  // a is not worse => fully concordant
		if !c.hq && !c.hp {
			mg.see(diff) // jump at 0 only when no threshold smooths it
		}
		return 1, 0
	}
	q, p := 0.0, 0.0
	if c.hq {
		q = c.q
		if diff <= q {
			if !c.hp {
				mg.see(diff - q)
			}
			return 1, 0
		}
		if !c.hp {
			mg.see(diff - q)
		}
	} else if !c.hp {
		mg.see(diff)
	}
	if c.hp {
		p = c.p
		if diff <= p {
			return 1 - (diff-q)/(p-q), 0
		}
	}
	if c.hv {
		if diff <= c.v {
			return 0, (diff - p) / (c.v - p)
		}
		return 0, 1
	}
	return 0, 0
}

func refCred(crits []eCrit, a, b map[string]float64, mg *margins) float64 {
	ws, tc := 0.0, 0.0
	ds := make([]float64, len(crits))
	for i, c := range crits {
		cj, dj := refPartial(c, a[c.id], b[c.id], mg)
		ws += c.k
		tc += c.k * cj
		ds[i] = dj
	}
	C := tc / ws
	cred := C
	for _, d := range ds {
		if d > C {
			cred *= (1 - d) / (1 - C)
		}
	}
	return cred
}

type distFn struct{ a, b float64 }

func (s distFn) at(x float64) float64 {
	if s.a == 0 && s.b == 0 {
		return 0
	}
	return s.a*x + s.b
}

// one distillation; best=true keeps the maximal qualification (the service's "ascending" ranking);
// returns the class number per alternative (1 = extracted first)
func refDistill(sig [][]float64, s distFn, best bool, mg *margins) []int {
	return refDistillOn(sig, s, best, mg, false)
}

// refDistillOn: with exact=true the matrix is the implementation's own (already compared with the definition), so a
// comparison between two of its entries is exact whatever their distance; only comparisons against a computed quantity
// (cut level minus s(cut level), credibility plus s(credibility)) have a margin that rounding could cross
func refDistillOn(sig [][]float64, s distFn, best bool, mg *margins, exact bool) []int {
	n := len(sig)
	class := make([]int, n)
	remaining := make([]int, n)
	for i := range remaining {
		remaining[i] = i
	}
	cls := 0
	for len(remaining) > 0 {
		cls++
		lam := 0.0
		for _, i := range remaining {
			for _, j := range remaining {
				if i != j && sig[i][j] > lam {
					lam = sig[i][j]
				}
			}
		}
		D := append([]int{}, remaining...)
		if lam == 0 {
			for _, i := range D {
				class[i] = cls
			}
			break
		}
		for steps := 0; ; steps++ {
			thr := lam - s.at(lam)
			next := 0.0
			for _, i := range D {
				for _, j := range D {
					if i != j {
						if !exact || thr != lam {
							mg.see(sig[i][j] - thr)
						}
						if sig[i][j] < thr && sig[i][j] > next {
							next = sig[i][j]
						}
					}
				}
			}
			qual := map[int]int{}
			for _, i := range D {
				for _, j := range D {
					if i == j {
						continue
					}
					x := sig[i][j]
					if !exact {
						mg.see(x - next)
					}
					if x > next {
						y := sig[j][i] + s.at(x)
						if !exact || y != sig[j][i] {
							mg.see(x - y)
						}
						if x > y {
							qual[i]++
							qual[j]--
						}
					}
				}
			}
			ext := qual[D[0]]
			for _, i := range D {
				if (best && qual[i] > ext) || (!best && qual[i] < ext) {
					ext = qual[i]
				}
			}
			var nd []int
			for _, i := range D {
				if qual[i] == ext {
					nd = append(nd, i)
				}
			}
			D = nd
			lam = next
			if len(D) == 1 || lam == 0 || steps > 10000 {
				break
			}
		}
		in := map[int]bool{}
		for _, i := range D {
			class[i] = cls
			in[i] = true
		}
		var nr []int
		for _, i := range remaining {
			if !in[i] {
				nr = append(nr, i)
			}
		}
		remaining = nr
	}
	return class
}

func refElectre(crits []eCrit, alts []map[string]float64, s distFn) (asc, desc []int, mg margins) {
	n := len(alts)
	sig := make([][]float64, n)
	for i := range sig {
		sig[i] = make([]float64, n)
		for j := range sig[i] {
			if i != j {
				sig[i][j] = refCred(crits, alts[i], alts[j], &mg)
			}
		}
	}
	asc = refDistill(sig, s, true, &mg)
	d := refDistill(sig, s, false, &mg)
	mx := 0
	for _, x := range d {
		if x > mx {
			mx = x
		}
	}
	desc = make([]int, n)
	for i, x := range d {
		desc[i] = mx + 1 - x
	}
	return
}

// refElectreOn distils a given credibility matrix (the implementation's own, read through the hook)
func refElectreOn(sig [][]float64, s distFn) (asc, desc []int, mg margins) {
	n := len(sig)
	asc = refDistillOn(sig, s, true, &mg, true)
	d := refDistillOn(sig, s, false, &mg, true)
	mx := 0
	for _, x := range d {
		if x > mx {
			mx = x
		}
	}
	desc = make([]int, n)
	for i, x := range d {
		desc[i] = mx + 1 - x
	}
	return
}
