package main

// Online checkers over the decorator trace of one decision: C07 (coherence, chain), C15 (omission),
// C16 (reversal), C17 (fatigue), C18 (concealment, mixing), C19 (anchoring), C09 (report == data).
// Every oracle is written from the property statement and works on the snapshots the decorators took
// around the real Apply call.

import (
	"fmt"
	"math"
	"reflect"
	"sort"
	"strings"

	"github.com/Azbesciak/RealDecisionMaker/lib/model"
)

type issue struct {
	prop, sig, msg string
}

type eventStats struct {
	counts map[string]int
}

func (s *eventStats) add(k string, n int) {
	if s.counts == nil {
		s.counts = map[string]int{}
	}
	s.counts[k] += n
}

func numOr(m M, key string, def float64) float64 {
	if m == nil {
		return def
	}
	switch v := m[key].(type) {
	case float64:
		return v
	case int:
		return float64(v)
	case int64:
		return float64(v)
	}
	return def
}

func strOr(m M, key, def string) string {
	if m == nil {
		return def
	}
	if v, ok := m[key].(string); ok {
		return v
	}
	return def
}

func boolOr(m M, key string, def bool) bool {
	if m == nil {
		return def
	}
	if v, ok := m[key].(bool); ok {
		return v
	}
	return def
}

func subM(m M, key string) M {
	if m == nil {
		return nil
	}
	if v, ok := m[key].(map[string]interface{}); ok {
		return v
	}
	return nil
}

func isDyadic(x float64) bool { return x*1024 == math.Trunc(x*1024) }

// splitCount: k = floor(n x ratio) clamped to [min, max]
func splitCount(n int, props M) (k int, fragile bool) {
	ratio := numOr(props, "ratio", 0)
	x := float64(n) * ratio
	k = int(math.Floor(x))
	// the float product may differ from the exact product of n and the ratio by an ulp; if it lands within a few ulps of
	// an integer without being equal to it, floor() of the two can differ and the case is not judged. A product that IS
	// an integer, or misses one by more than that (0.9999999999 for n=3, ratio=0.3333333333), is unambiguous.
	// (only a product within a few ulps of an integer without being equal to it is affected: 1e-12 relative)
	if d := math.Abs(x - math.Round(x)); !isDyadic(ratio) && d != 0 && d < 1e-12*math.Max(1, math.Abs(x)) {
		fragile = true
	}
	mn := int(numOr(props, "min", 0))
	if k < mn {
		k = mn
	} else if mx, ok := props["max"].(float64); ok && float64(k) > mx {
		k = int(mx)
	}
	return
}

// boundVal: raise to 0 when negatives are disallowed, then clip into [lo,hi] scaled about its centre
func boundVal(v float64, p M, lo, hi float64) float64 {
	if boolOr(p, "disallowNegativeValues", false) && v < 0 {
		v = 0
	}
	if sc := numOr(p, "allowedValuesRangeScaling", -1); sc > 0 {
		l, h := lo, hi
		if sc != 1 {
			half := (hi - lo) / 2
			l, h = lo+half-half*sc, hi-half+half*sc
		}
		if v < l {
			v = l
		}
		if v > h {
			v = h
		}
	}
	return v
}

func nearAbs(a, b, scale float64) bool { return math.Abs(a-b) <= 1e-9*(1+math.Abs(scale)) }

func idsOfAlts(as []altSnap) []string {
	out := make([]string, len(as))
	for i, a := range as {
		out[i] = a.Id
	}
	return out
}

func critSetOf(s *dmpSnap) map[string]critSnap {
	m := map[string]critSnap{}
	for _, c := range s.Crit {
		m[c.Id] = c
	}
	return m
}

// reportedCriteriaChanges extracts the criteria a bias reports as omitted / added
func reportedCriteriaChanges(e *biasEvent) (omitted, added []string) {
	if e.Report == nil {
		return
	}
	switch e.Name {
	case "criteriaOmission":
		if l, ok := e.Report["omittedCriteria"].([]interface{}); ok {
			for _, x := range l {
				if m, ok := x.(map[string]interface{}); ok {
					omitted = append(omitted, strOr(m, "id", ""))
				}
			}
		}
	case "criteriaConcealment":
		if l, ok := e.Report["addedCriteria"].([]interface{}); ok {
			for _, x := range l {
				if m, ok := x.(map[string]interface{}); ok {
					added = append(added, strOr(m, "id", ""))
				}
			}
		}
	case "criteriaMixing":
		if nc := subM(e.Report, "newCriterion"); nc != nil {
			added = append(added, strOr(nc, "id", ""))
		}
	case "anchoring":
		if ar := subM(e.Report, "applierResult"); ar != nil {
			if l, ok := ar["addedCriteria"].([]interface{}); ok {
				for _, x := range l {
					if m, ok := x.(map[string]interface{}); ok {
						added = append(added, strOr(m, "id", ""))
					}
				}
			}
		}
	}
	return
}

// paramsCover: the method's parameters cover every current criterion
func paramsCover(method string, s *dmpSnap) string {
	p := s.Params
	if !p.OK {
		return ""
	}
	ids := s.critIds()
	switch method {
	case "weightedSum", "owa", "majorityHeuristic", "aspectEliminationHeuristic", "electreIII":
		for _, id := range ids {
			if _, ok := p.W[id]; !ok {
				return "no weight for criterion " + id
			}
		}
		if method == "owa" && len(p.W) != len(ids) {
			return fmt.Sprintf("owa has %d weights for %d criteria", len(p.W), len(ids))
		}
	case "choquetIntegral":
		if len(ids) <= 10 {
			for _, key := range powerSetKeys(sortedStrings(ids)) {
				parts := strings.Split(key, ",")
				sort.Strings(parts)
				if _, ok := p.Choquet[strings.Join(parts, ",")]; !ok {
					return "no capacity for the criteria set {" + key + "}"
				}
			}
		}
	}
	if method == "aspectEliminationHeuristic" || method == "satisfactionHeuristic" {
		if p.Levels != nil && p.Levels.Fn == "thresholds" {
			for i, t := range p.Levels.Thresholds {
				for _, id := range ids {
					if _, ok := t[id]; !ok {
						return fmt.Sprintf("level %d has no threshold for criterion %s", i, id)
					}
				}
			}
		}
	}
	return ""
}

func paramsEqual(a, b paramView) bool {
	return fmt.Sprintf("%+v|%+v", a, derefLevels(a)) == fmt.Sprintf("%+v|%+v", b, derefLevels(b)) && mapsEq(a.W, b.W) && mapsEq(a.Choquet, b.Choquet)
}

func derefLevels(p paramView) interface{} {
	if p.Levels == nil {
		return nil
	}
	return *p.Levels
}

func mapsEq(a, b map[string]float64) bool {
	if len(a) != len(b) {
		return false
	}
	for k, v := range a {
		if w, ok := b[k]; !ok || w != v {
			return false
		}
	}
	return true
}

// paramsSame compares two parameter views ignoring pointer identity
func paramsSame(a, b paramView) bool {
	al, bl := a.Levels, b.Levels
	a.Levels, b.Levels = nil, nil
	if fmt.Sprintf("%v|%v|%v|%v|%v|%v|%v|%v", a.OK, a.WOrder, a.ChoquetCrit, a.DistA, a.DistB, a.CurrentChoice, a.Seed, a.RandomOrder) !=
		fmt.Sprintf("%v|%v|%v|%v|%v|%v|%v|%v", b.OK, b.WOrder, b.ChoquetCrit, b.DistA, b.DistB, b.CurrentChoice, b.Seed, b.RandomOrder) {
		return false
	}
	if a.Draw != b.Draw || !mapsEq(a.W, b.W) || !mapsEq(a.Choquet, b.Choquet) || len(a.Electre) != len(b.Electre) {
		return false
	}
	for k, v := range a.Electre {
		if b.Electre[k] != v {
			return false
		}
	}
	if (al == nil) != (bl == nil) {
		return false
	}
	if al != nil {
		if al.Fn != bl.Fn || al.Coefficient != bl.Coefficient || al.MinValue != bl.MinValue || al.MaxValue != bl.MaxValue || len(al.Thresholds) != len(bl.Thresholds) {
			return false
		}
		for i := range al.Thresholds {
			if !mapsEq(al.Thresholds[i], bl.Thresholds[i]) {
				return false
			}
		}
	}
	return true
}

// ---------------------------------------------------------------------------------------------
// C07: coherence after one fired bias

func checkCoherence(method string, e *biasEvent, st *eventStats) []issue {
	var is []issue
	add := func(sig, msg string) {
		is = append(is, issue{"C07", sig, fmt.Sprintf("bias #%d %s: %s", e.Pos, e.Name, msg)})
	}
	in, out := &e.In, &e.Out
	// alternatives and their split never change
	if fmt.Sprint(idsOfAlts(in.Cons)) != fmt.Sprint(idsOfAlts(out.Cons)) {
		add("alternatives-changed", fmt.Sprintf("considered alternatives %v became %v", idsOfAlts(in.Cons), idsOfAlts(out.Cons)))
		return is
	}
	if fmt.Sprint(sortedStrings(idsOfAlts(in.NCons))) != fmt.Sprint(sortedStrings(idsOfAlts(out.NCons))) {
		add("alternatives-changed", fmt.Sprintf("not-considered alternatives %v became %v", idsOfAlts(in.NCons), idsOfAlts(out.NCons)))
		return is
	}
	// criteria appear / disappear only as reported
	inC, outC := critSetOf(in), critSetOf(out)
	if len(outC) != len(out.Crit) {
		add("criteria-duplicate", fmt.Sprintf("duplicate criterion ids in %v", out.critIds()))
		return is
	}
	omitted, added := reportedCriteriaChanges(e)
	exp := map[string]bool{}
	for id := range inC {
		exp[id] = true
	}
	for _, id := range omitted {
		delete(exp, id)
	}
	for _, id := range added {
		exp[id] = true
	}
	for id := range outC {
		if !exp[id] {
			add("criteria-unreported", fmt.Sprintf("criterion '%s' is in the handed-on criteria but was neither there before nor reported as added (reported added %v)", id, added))
			return is
		}
	}
	for id := range exp {
		if _, ok := outC[id]; !ok {
			add("criteria-unreported", fmt.Sprintf("criterion '%s' disappeared without being reported as omitted (reported omitted %v)", id, omitted))
			return is
		}
	}
	for id, c := range outC {
		if ic, ok := inC[id]; ok && ic != c {
			add("criterion-altered", fmt.Sprintf("attributes of criterion '%s' changed: %+v -> %+v", id, ic, c))
			return is
		}
	}
	// every known alternative has a value for every current criterion
	for _, a := range out.all() {
		for id := range outC {
			if _, ok := a.V[id]; !ok {
				add("missing-value", fmt.Sprintf("alternative %s has no value for criterion '%s'", a.Id, id))
				return is
			}
		}
	}
	// the method's parameters cover every current criterion
	if !out.Params.OK {
		st.add("params_unreadable", 1)
	} else if msg := paramsCover(method, out); msg != "" {
		add("params-not-covering", msg)
		return is
	}
	// values the bias does not deliberately rewrite are bit-identical
	rewrites := map[string]bool{} // criteria whose values may change
	all := false
	switch e.Name {
	case "fatigue":
		all = true
	case "anchoring":
		if strOr(subM(e.Props, "applier"), "function", "") == "inline" {
			all = true
		}
	case "preferenceReversal":
		if l, ok := e.Report["reversedPreferenceCriteria"].([]interface{}); ok {
			for _, x := range l {
				if m, ok := x.(map[string]interface{}); ok {
					rewrites[strOr(m, "id", "")] = true
				}
			}
		}
	}
	if !all {
		inAll, outAll := in.all(), out.all()
		outBy := map[string]altSnap{}
		for _, a := range outAll {
			outBy[a.Id] = a
		}
		for _, a := range inAll {
			o := outBy[a.Id]
			for id := range inC {
				if rewrites[id] {
					continue
				}
				if _, kept := outC[id]; !kept {
					continue
				}
				if o.V[id] != a.V[id] {
					add("value-not-preserved", fmt.Sprintf("value %s/%s changed %v -> %v although the bias does not rewrite it (an earlier change is lost)", a.Id, id, a.V[id], o.V[id]))
					return is
				}
			}
		}
	}
	st.add("coherent_events", 1)
	return is
}

// checkChain: the data a stage receives is exactly what the previous stage handed on
func checkChain(tr *trace) []issue {
	var is []issue
	var prev *dmpSnap
	for _, e := range tr.Bias {
		if prev == nil {
			if m := snapEqualData(&e.Orig, &e.In); m != "" {
				is = append(is, issue{"C07", "chain-broken", fmt.Sprintf("the first fired bias %s did not receive the original state: %s", e.Name, m)})
			}
		} else if m := snapEqualData(prev, &e.In); m != "" {
			is = append(is, issue{"C07", "chain-broken", fmt.Sprintf("bias #%d %s did not receive what the previous bias handed on: %s", e.Pos, e.Name, m)})
		}
		prev = &e.Out
	}
	if tr.Eval != nil && prev != nil {
		if m := snapEqualData(prev, &tr.Eval.Before); m != "" {
			is = append(is, issue{"C07", "chain-broken", "the method did not receive what the last bias handed on: " + m})
		}
	}
	return is
}

// ---------------------------------------------------------------------------------------------
// importance measures of C15 (recomputed by the monitor from the snapshot)

func importanceOf(method string, s *dmpSnap) (map[string]float64, bool) {
	imp := map[string]float64{}
	p := s.Params
	if !p.OK {
		return nil, false
	}
	if s.ReqW != nil {
		p.W = s.ReqW
	}
	switch method {
	case "weightedSum":
		for _, c := range s.Crit {
			t := 0.0
			for _, a := range s.Cons {
				t += p.W[c.Id] * a.V[c.Id]
			}
			imp[c.Id] = t
		}
	case "owa", "satisfactionHeuristic":
		for _, c := range s.Crit {
			t := 0.0
			for _, a := range s.Cons {
				t += a.V[c.Id]
			}
			imp[c.Id] = t
		}
	case "majorityHeuristic", "aspectEliminationHeuristic", "electreIII":
		for _, c := range s.Crit {
			imp[c.Id] = p.W[c.Id]
		}
	case "choquetIntegral":
		for _, c := range s.Crit {
			imp[c.Id] = 0
		}
		for _, a := range s.Cons {
			vs := make([]kv, 0, len(a.V))
			for k, v := range a.V {
				vs = append(vs, kv{k, v})
			}
			sort.Slice(vs, func(i, j int) bool {
				if vs[i].v != vs[j].v {
					return vs[i].v < vs[j].v
				}
				return vs[i].k < vs[j].k
			})
			prev := 0.0
			for i := 0; i < len(vs); {
				j := i + 1
				for j < len(vs) && math.Abs(vs[j].v-vs[i].v) <= 1e-5 {
					if g := vs[j].v - vs[i].v; g > 0.99e-5 {
						return nil, false
					}
					j++
				}
				if j < len(vs) && vs[j].v-vs[i].v < 1.01e-5 {
					return nil, false
				}
				ids := make([]string, 0)
				for _, x := range vs[i:] {
					ids = append(ids, x.k)
				}
				sort.Strings(ids)
				mu, ok := p.Choquet[strings.Join(ids, ",")]
				if !ok {
					return nil, false
				}
				add := mu * (vs[i].v - prev)
				for _, id := range ids {
					imp[id] += add
				}
				prev = vs[i].v
				i = j
			}
		}
	default:
		return nil, false
	}
	return imp, true
}

// frontOfOrdering: for the deterministic orderings the selected criteria are exactly the first k of the ordering -
// weakest = the listener's ascending importance ranking (as observed by the decorator), strongest = its exact reverse
func frontOfOrdering(e *biasEvent, selected []string) string {
	ord := strOr(e.Props, "ordering", "")
	if ord != "" && ord != "weakest" && ord != "strongest" {
		return ""
	}
	ranks := findCalls(e, "rank")
	if len(ranks) != 1 {
		return ""
	}
	order := append([]string{}, ranks[0].Ranked...)
	if ord == "strongest" {
		for i, j := 0, len(order)-1; i < j; i, j = i+1, j-1 {
			order[i], order[j] = order[j], order[i]
		}
	}
	if len(selected) > len(order) {
		return fmt.Sprintf("%d criteria selected from an ordering of %d", len(selected), len(order))
	}
	for i, id := range selected {
		if order[i] != id {
			name := "weakest (ascending importance)"
			if ord == "strongest" {
				name = "strongest (exact reverse of the ascending importance ranking)"
			}
			return fmt.Sprintf("selected %v, but the front of the ordering %s is %v", selected, name, order[:len(selected)])
		}
	}
	return ""
}

// ---------------------------------------------------------------------------------------------
// C15 omission event

func checkOmission(method string, e *biasEvent, st *eventStats) []issue {
	var is []issue
	add := func(sig, msg string) {
		is = append(is, issue{"C15", sig, fmt.Sprintf("bias #%d criteriaOmission: %s", e.Pos, msg)})
	}
	in, out := &e.In, &e.Out
	n := len(in.Crit)
	k, fragile := splitCount(n, e.Props)
	if fragile {
		st.add("skipped_fragile", 1)
		return nil
	}
	if k > n || k < 0 {
		st.add("outside_domain", 1)
		return nil
	}
	omitted, _ := reportedCriteriaChanges(e)
	if len(omitted) != k {
		add("omission-count", fmt.Sprintf("%d criteria reported omitted, floor(%d x %v) clamped to [min,max] = %d (props %v)", len(omitted), n, numOr(e.Props, "ratio", 0), k, e.Props))
		return is
	}
	inC, outC := critSetOf(in), critSetOf(out)
	seen := map[string]bool{}
	for _, id := range omitted {
		if _, ok := inC[id]; !ok {
			add("omission-unknown", fmt.Sprintf("reported omitted criterion '%s' is not one of the criteria %v", id, in.critIds()))
			return is
		}
		if seen[id] {
			add("omission-duplicate", "criterion '"+id+"' reported omitted twice")
			return is
		}
		seen[id] = true
		if _, ok := outC[id]; ok {
			add("omission-kept", "criterion '"+id+"' is reported omitted but still handed on")
			return is
		}
	}
	if len(outC) != n-k {
		add("omission-count", fmt.Sprintf("%d criteria handed on, expected %d - %d", len(outC), n, k))
		return is
	}
	// every remaining structure is restricted to the kept criteria
	for _, a := range out.all() {
		if len(a.V) != len(outC) {
			add("omission-not-restricted", fmt.Sprintf("alternative %s keeps values %v for kept criteria %v", a.Id, sortedKeysF(a.V), out.critIds()))
			return is
		}
	}
	if out.Params.OK {
		for _, id := range omitted {
			if _, ok := out.Params.W[id]; ok {
				add("omission-params", "parameters still hold a weight for the omitted criterion '"+id+"'")
				return is
			}
			for key := range out.Params.Choquet {
				for _, part := range strings.Split(key, ",") {
					if part == id {
						add("omission-params", "capacities still mention the omitted criterion '"+id+"'")
						return is
					}
				}
			}
			if out.Params.Levels != nil {
				for _, t := range out.Params.Levels.Thresholds {
					if _, ok := t[id]; ok {
						add("omission-params", "thresholds still mention the omitted criterion '"+id+"'")
						return is
					}
				}
			}
		}
	}
	if msg := frontOfOrdering(e, omitted); msg != "" {
		add("omission-ordering-front", msg)
		return is
	}
	st.add("omission_events", 1)
	if k > 0 {
		st.add("omission_nonempty", 1)
	}
	// weakest / strongest: no kept criterion is less (more) important than an omitted one
	ord := strOr(e.Props, "ordering", "")
	if ord == "" || ord == "weakest" || ord == "strongest" {
		imp, ok := importanceOf(method, in)
		if !ok {
			st.add("importance_unavailable", 1)
			return is
		}
		for _, o := range omitted {
			for id := range outC {
				tol := 1e-9 * (1 + math.Abs(imp[o]) + math.Abs(imp[id]))
				if ord == "strongest" && imp[o] < imp[id]-tol {
					add("omission-importance", fmt.Sprintf("ordering strongest omitted '%s' (importance %v) but kept the more important '%s' (%v)", o, imp[o], id, imp[id]))
					return is
				}
				if ord != "strongest" && imp[o] > imp[id]+tol {
					add("omission-importance", fmt.Sprintf("ordering weakest omitted '%s' (importance %v) but kept the less important '%s' (%v)", o, imp[o], id, imp[id]))
					return is
				}
			}
		}
		if k > 0 && k < n {
			st.add("importance_checked", 1)
		}
	}
	return is
}

// ---------------------------------------------------------------------------------------------
// C16 reversal event

func checkReversal(method string, e *biasEvent, st *eventStats) []issue {
	var is []issue
	add := func(sig, msg string) {
		is = append(is, issue{"C16", sig, fmt.Sprintf("bias #%d preferenceReversal: %s", e.Pos, msg)})
	}
	in, out := &e.In, &e.Out
	n := len(in.Crit)
	k, fragile := splitCount(n, e.Props)
	if fragile {
		st.add("skipped_fragile", 1)
		return nil
	}
	if k > n || k < 0 {
		st.add("outside_domain", 1)
		return nil
	}
	rl, _ := e.Report["reversedPreferenceCriteria"].([]interface{})
	if len(rl) != k {
		add("reversal-count", fmt.Sprintf("%d criteria reversed, floor(%d x %v) clamped to [min,max] = %d (props %v)", len(rl), n, numOr(e.Props, "ratio", 0), k, e.Props))
		return is
	}
	if fmt.Sprint(in.Crit) != fmt.Sprint(out.Crit) {
		add("reversal-criteria", fmt.Sprintf("criteria list changed: %v -> %v", in.Crit, out.Crit))
		return is
	}
	if in.Params.OK && out.Params.OK && !paramsSame(in.Params, out.Params) {
		add("reversal-params", "method parameters changed")
		return is
	}
	inAll, outAll := in.all(), out.all()
	if len(inAll) != len(outAll) {
		add("reversal-alternatives", "alternatives changed")
		return is
	}
	outBy := map[string]altSnap{}
	for _, a := range outAll {
		outBy[a.Id] = a
	}
	sel := map[string]bool{}
	for _, r := range rl {
		rm, _ := r.(map[string]interface{})
		id := strOr(rm, "id", "")
		cr, ok := in.crit(id)
		if !ok {
			add("reversal-unknown", "reported criterion '"+id+"' is not a current criterion")
			return is
		}
		if sel[id] {
			add("reversal-duplicate", "criterion '"+id+"' reversed twice")
			return is
		}
		sel[id] = true
		lo, hi := in.rng(cr)
		vr := subM(rm, "valuesRange")
		if numOr(vr, "min", math.NaN()) != lo || numOr(vr, "max", math.NaN()) != hi {
			add("reversal-range-report", fmt.Sprintf("criterion '%s': reported range %v, range of the data is [%v,%v]", id, vr, lo, hi))
			return is
		}
		if strOr(rm, "type", "") != cr.Type {
			add("reversal-type-report", "criterion '"+id+"': reported type differs from the criterion's type")
			return is
		}
		av := subM(rm, "alternativesValues")
		if len(av) != len(inAll) {
			add("reversal-report-values", fmt.Sprintf("criterion '%s': %d reported values for %d known alternatives", id, len(av), len(inAll)))
			return is
		}
		for _, a := range inAll {
			want := hi - a.V[id] + lo
			got := outBy[a.Id].V[id]
			if !nearAbs(got, want, math.Abs(hi)+math.Abs(lo)) {
				add("reversal-value", fmt.Sprintf("%s/%s: %v -> %v, expected max+min-v = %v (range [%v,%v])", a.Id, id, a.V[id], got, want, lo, hi))
				return is
			}
			rep, ok := av[a.Id].(float64)
			if !ok || rep != got {
				add("reversal-report-values", fmt.Sprintf("%s/%s: reported %v but handed on %v", a.Id, id, av[a.Id], got))
				return is
			}
		}
		// the criterion's range is preserved
		if !cr.HasRng {
			nlo, nhi := out.rng(cr)
			if !nearAbs(nlo, lo, hi-lo) || !nearAbs(nhi, hi, hi-lo) {
				add("reversal-range", fmt.Sprintf("criterion '%s': range [%v,%v] became [%v,%v]", id, lo, hi, nlo, nhi))
				return is
			}
		}
	}
	for _, a := range inAll {
		for id, v := range a.V {
			if !sel[id] && outBy[a.Id].V[id] != v {
				add("reversal-other-values", fmt.Sprintf("%s/%s is not selected but changed %v -> %v", a.Id, id, v, outBy[a.Id].V[id]))
				return is
			}
		}
		if len(outBy[a.Id].V) != len(a.V) {
			add("reversal-other-values", "alternative "+a.Id+" gained or lost values")
			return is
		}
	}
	var selList []string
	for _, r := range rl {
		rm, _ := r.(map[string]interface{})
		selList = append(selList, strOr(rm, "id", ""))
	}
	if msg := frontOfOrdering(e, selList); msg != "" {
		add("reversal-ordering-front", msg)
		return is
	}
	// the same ordering rule as omission: weakest (default) / strongest select by the method's documented importance
	if ord := strOr(e.Props, "ordering", ""); ord == "" || ord == "weakest" || ord == "strongest" {
		if imp, ok := importanceOf(method, in); ok {
			for _, o := range selList {
				for _, cr := range in.Crit {
					if sel[cr.Id] {
						continue
					}
					tol := 1e-9 * (1 + math.Abs(imp[o]) + math.Abs(imp[cr.Id]))
					if ord == "strongest" && imp[o] < imp[cr.Id]-tol {
						add("reversal-importance", fmt.Sprintf("ordering strongest reversed '%s' (importance %v) but not the more important '%s' (%v)", o, imp[o], cr.Id, imp[cr.Id]))
						return is
					}
					if ord != "strongest" && imp[o] > imp[cr.Id]+tol {
						add("reversal-importance", fmt.Sprintf("ordering weakest reversed '%s' (importance %v) but not the less important '%s' (%v)", o, imp[o], cr.Id, imp[cr.Id]))
						return is
					}
				}
			}
			if k > 0 && k < n {
				st.add("importance_checked", 1)
			}
		}
	}
	st.add("reversal_events", 1)
	if k > 0 {
		st.add("reversal_nonempty", 1)
		if len(in.NCons) > 0 {
			st.add("reversal_with_notconsidered", 1)
		}
	}
	return is
}

// ---------------------------------------------------------------------------------------------
// C17 fatigue event

func fatigueRatio(props M) (f float64, tol float64, ok bool) {
	p := subM(props, "params")
	switch strOr(props, "function", "") {
	case "const":
		return numOr(p, "value", 0), 0, true
	case "expFromZero":
		m, a, q := numOr(p, "multiplier", 0), numOr(p, "alpha", 0), math.Trunc(numOr(p, "queryNumber", 0))
		ex := math.Exp(a * q)
		return m * (ex - 1), 1e-9 * (math.Abs(m)*ex + math.Abs(m)), true
	}
	return 0, 0, false
}

func checkFatigue(method string, e *biasEvent, st *eventStats) []issue {
	var is []issue
	add := func(sig, msg string) {
		is = append(is, issue{"C17", sig, fmt.Sprintf("bias #%d fatigue: %s", e.Pos, msg)})
	}
	in, out := &e.In, &e.Out
	f, ftol, ok := fatigueRatio(e.Props)
	if !ok {
		st.add("outside_domain", 1)
		return nil
	}
	rep := numOr(e.Report, "effectiveFatigueRatio", math.NaN())
	if !(math.Abs(rep-f) <= ftol) {
		add("fatigue-ratio", fmt.Sprintf("reported ratio %v, the fatigue function gives %v", rep, f))
		return is
	}
	if fmt.Sprint(in.Crit) != fmt.Sprint(out.Crit) {
		add("fatigue-criteria", "criteria changed")
		return is
	}
	if in.Params.OK && out.Params.OK && !paramsSame(in.Params, out.Params) {
		add("fatigue-params", "method parameters changed")
		return is
	}
	inAll, outAll := in.all(), out.all()
	if len(inAll) != len(outAll) {
		add("fatigue-alternatives", "alternatives changed")
		return is
	}
	bounded := boolOr(e.Props, "disallowNegativeValues", false) || numOr(e.Props, "allowedValuesRangeScaling", -1) > 0
	up, down := 0, 0
	for i, a := range inAll {
		o := outAll[i]
		lost := o.Id != a.Id
		for _, cr := range in.Crit { // values for criteria nobody declared may be there or not: they take no part
			if _, ok := o.V[cr.Id]; !ok {
				lost = true
			}
		}
		if lost {
			add("fatigue-alternatives", "alternative "+a.Id+" changed identity or lost values")
			return is
		}
		for _, cr := range in.Crit {
			v, w := a.V[cr.Id], o.V[cr.Id]
			d := math.Abs(f * v)
			if !bounded {
				if math.Abs(w-v) > d*(1+1e-12) {
					add("fatigue-band", fmt.Sprintf("%s/%s moved %v -> %v, more than |f x v| = %v (f=%v)", a.Id, cr.Id, v, w, d, f))
					return is
				}
				if f == 0 && w != v {
					add("fatigue-identity", fmt.Sprintf("f = 0 but %s/%s changed %v -> %v", a.Id, cr.Id, v, w))
					return is
				}
			} else {
				lo, hi := in.rng(cr)
				l, h := boundVal(v-d, e.Props, lo, hi), boundVal(v+d, e.Props, lo, hi)
				if f == 0 && w == v {
					// "f = 0 leaves all data unchanged" and "the moved value is bounded" can both be read as applying to a
					// value that already lies outside the bounds; either outcome (v itself, or v bounded) is accepted
				} else if w < l-1e-9*(1+math.Abs(l)) || w > h+1e-9*(1+math.Abs(h)) {
					add("fatigue-bounding", fmt.Sprintf("%s/%s moved %v -> %v, outside the bounded band [%v,%v] (f=%v, range [%v,%v], props %v)", a.Id, cr.Id, v, w, l, h, f, lo, hi, e.Props))
					return is
				}
			}
			if w > v {
				up++
			} else if w < v {
				down++
			}
		}
	}
	// the report carries exactly the values handed on
	for _, part := range []struct {
		key string
		as  []altSnap
	}{{"consideredAlternatives", out.Cons}, {"notConsideredAlternatives", out.NCons}} {
		l, _ := e.Report[part.key].([]interface{})
		if len(l) != len(part.as) {
			add("fatigue-report", fmt.Sprintf("report lists %d %s, %d handed on", len(l), part.key, len(part.as)))
			return is
		}
		for i, x := range l {
			xm, _ := x.(map[string]interface{})
			cv := subM(xm, "criteria")
			if strOr(xm, "id", "") != part.as[i].Id || len(cv) != len(part.as[i].V) {
				add("fatigue-report", fmt.Sprintf("%s[%d] is %v, handed on %s", part.key, i, xm["id"], part.as[i].Id))
				return is
			}
			for k, v := range part.as[i].V {
				if r, ok := cv[k].(float64); !ok || r != v {
					add("fatigue-report", fmt.Sprintf("%s %s/%s reported %v, handed on %v", part.key, part.as[i].Id, k, cv[k], v))
					return is
				}
			}
		}
	}
	st.add("fatigue_events", 1)
	st.add("fatigue_moved_up", up)
	st.add("fatigue_moved_down", down)
	if !bounded && f != 0 && up+down >= 40 && (up == 0 || down == 0) {
		add("fatigue-one-direction", fmt.Sprintf("%d values moved, all in the same direction (up %d, down %d)", up+down, up, down))
	}
	if bounded {
		st.add("fatigue_bounded_events", 1)
	}
	if f == 0 {
		st.add("fatigue_zero_ratio", 1)
	}
	return is
}

// ---------------------------------------------------------------------------------------------
// C18: added criteria (concealment / mixing); also used for anchoring's newCriterion applier

func findCalls(e *biasEvent, kind string) []*listenerCall {
	var out []*listenerCall
	for _, c := range e.Calls {
		if c.Kind == kind {
			out = append(out, c)
		}
	}
	return out
}

// refCriterionByImportance recomputes "first criterion whose cumulated importance reaches ratio x total"
func refCriterionByImportance(ranked []string, w []float64, ratio float64) (string, bool) {
	total := 0.0
	for _, x := range w {
		total += x
	}
	want := ratio * total
	cur := 0.0
	for i, id := range ranked {
		cur += w[i]
		if math.Abs(cur-want) <= 1e-9*(1+math.Abs(total)) && cur != want {
			return "", false // boundary: fragile
		}
		if cur >= want {
			return id, true
		}
	}
	if len(ranked) == 0 {
		return "", false
	}
	return ranked[len(ranked)-1], true
}

// checkAddedParams: the parameters were extended consistently for the new criterion
func checkAddedParams(prop, method string, e *biasEvent, newId string, call *listenerCall, before, after *dmpSnap, st *eventStats) []issue {
	var is []issue
	add := func(sig, msg string) {
		is = append(is, issue{prop, sig, fmt.Sprintf("bias #%d %s: %s", e.Pos, e.Name, msg)})
	}
	if !after.Params.OK || !before.Params.OK {
		st.add("params_unreadable", 1)
		return nil
	}
	switch method {
	case "weightedSum", "owa", "majorityHeuristic", "aspectEliminationHeuristic", "electreIII":
		nw, ok := after.Params.W[newId]
		if !ok {
			add("added-weight-missing", "no weight for the new criterion '"+newId+"'")
			return is
		}
		if call != nil && call.ParamsIn.OK {
			wref, ok := call.ParamsIn.W[call.Ref]
			if !ok {
				add("added-reference-weight", "the reference criterion '"+call.Ref+"' has no weight in the parameters used")
				return is
			}
			// a seeded fraction in [0,1) of the reference criterion's weight
			okFrac := false
			if wref == 0 {
				okFrac = nw == 0
			} else {
				fr := nw / wref
				okFrac = fr >= 0 && fr < 1
			}
			if !okFrac {
				add("added-weight-fraction", fmt.Sprintf("new weight %v is not a fraction in [0,1) of the reference criterion's weight %v ('%s')", nw, wref, call.Ref))
				return is
			}
			if len(call.Draws) == 1 && nw != call.Draws[0]*wref {
				add("added-weight-fraction", fmt.Sprintf("new weight %v differs from seeded draw %v x reference weight %v", nw, call.Draws[0], wref))
				return is
			}
			st.add("weight_fraction_checked", 1)
		}
		for id, w := range before.Params.W {
			if after.Params.W[id] != w {
				add("added-old-weights", fmt.Sprintf("weight of '%s' changed %v -> %v", id, w, after.Params.W[id]))
				return is
			}
		}
		if method == "electreIII" && call != nil {
			nv, rv := after.Params.Electre[newId], call.ParamsIn.Electre[call.Ref]
			if nv.Q != rv.Q || nv.P != rv.P || nv.V != rv.V || nv.HQ != rv.HQ || nv.HP != rv.HP || nv.HV != rv.HV {
				add("added-thresholds", "ELECTRE thresholds of the new criterion differ from the reference criterion's")
				return is
			}
		}
	case "choquetIntegral":
		ids := after.critIds()
		if len(ids) <= 10 {
			for _, key := range powerSetKeys(sortedStrings(ids)) {
				parts := strings.Split(key, ",")
				sort.Strings(parts)
				mu, ok := after.Params.Choquet[strings.Join(parts, ",")]
				if !ok {
					add("added-capacity-missing", "no capacity for {"+key+"} after adding '"+newId+"'")
					return is
				}
				if mu < 0 || mu > 1 {
					add("added-capacity-range", fmt.Sprintf("capacity of {%s} = %v outside [0,1]", key, mu))
					return is
				}
			}
		}
		for key, mu := range before.Params.Choquet {
			if after.Params.Choquet[key] != mu {
				add("added-old-capacities", fmt.Sprintf("capacity of {%s} changed %v -> %v", key, mu, after.Params.Choquet[key]))
				return is
			}
		}
		st.add("choquet_extension_checked", 1)
	}
	if method == "aspectEliminationHeuristic" || method == "satisfactionHeuristic" {
		if lv := after.Params.Levels; lv != nil && lv.Fn == "thresholds" {
			bl := before.Params.Levels
			if bl == nil || len(bl.Thresholds) != len(lv.Thresholds) {
				add("added-levels", "number of aspiration levels changed")
				return is
			}
			for i, t := range lv.Thresholds {
				if _, ok := t[newId]; !ok {
					add("added-levels", fmt.Sprintf("level %d has no threshold for the new criterion '%s'", i, newId))
					return is
				}
				for id, v := range bl.Thresholds[i] {
					if t[id] != v {
						add("added-levels", fmt.Sprintf("level %d threshold of '%s' changed", i, id))
						return is
					}
				}
			}
			st.add("levels_extension_checked", 1)
		}
	}
	return is
}

func checkReferenceCriterion(prop string, e *biasEvent, call *listenerCall, propsForRef M, st *eventStats) []issue {
	var is []issue
	if call == nil {
		return nil
	}
	add := func(sig, msg string) {
		is = append(is, issue{prop, sig, fmt.Sprintf("bias #%d %s: %s", e.Pos, e.Name, msg)})
	}
	// always one of the existing criteria
	_, inCur := e.In.crit(call.Ref)
	_, inOrig := e.Orig.crit(call.Ref)
	if !inCur && !inOrig {
		add("reference-not-existing", fmt.Sprintf("reference criterion '%s' is not one of the existing criteria %v", call.Ref, e.In.critIds()))
		return is
	}
	ranks := findCalls(e, "rank")
	if len(ranks) == 0 {
		return is
	}
	rk := ranks[len(ranks)-1]
	member := false
	for _, id := range rk.Ranked {
		if id == call.Ref {
			member = true
		}
	}
	if !member {
		add("reference-not-ranked", fmt.Sprintf("reference criterion '%s' is not among the ranked criteria %v", call.Ref, rk.Ranked))
		return is
	}
	t := refTypeOf(propsForRef, "importanceRatio")
	if t == "importanceRatio" {
		want, ok := refCriterionByImportance(rk.Ranked, rk.RankedW, numOr(propsForRef, "newCriterionImportance", 0))
		if !ok {
			st.add("skipped_fragile", 1)
			return is
		}
		if want != call.Ref {
			add("reference-importance", fmt.Sprintf("importanceRatio %v over ranked %v (importances %v) selects '%s', the bias used '%s'", numOr(propsForRef, "newCriterionImportance", 0), rk.Ranked, rk.RankedW, want, call.Ref))
			return is
		}
		st.add("reference_exact_checked", 1)
	} else {
		st.add("reference_membership_checked", 1)
	}
	return is
}

func checkAddition(method string, e *biasEvent, st *eventStats) []issue {
	var is []issue
	add := func(sig, msg string) {
		is = append(is, issue{"C18", sig, fmt.Sprintf("bias #%d %s: %s", e.Pos, e.Name, msg)})
	}
	in, out := &e.In, &e.Out
	inC, outC := critSetOf(in), critSetOf(out)
	inAll, outAll := in.all(), out.all()
	if len(inAll) != len(outAll) {
		add("alternatives-changed", "alternatives changed")
		return is
	}
	outBy := map[string]altSnap{}
	for _, a := range outAll {
		outBy[a.Id] = a
	}
	unchanged := func() bool {
		for _, a := range inAll {
			for id, v := range a.V {
				if w, ok := outBy[a.Id].V[id]; !ok || w != v {
					add("existing-values", fmt.Sprintf("existing value %s/%s changed %v -> %v", a.Id, id, v, outBy[a.Id].V[id]))
					return false
				}
			}
		}
		return true
	}
	if e.Name == "criteriaMixing" && len(in.Crit) < 2 {
		if len(out.Crit) != len(in.Crit) || !e.NilReport && e.Report != nil && subM(e.Report, "newCriterion") != nil && strOr(subM(e.Report, "newCriterion"), "id", "") != "" {
			add("mixing-below-two", "mixing with fewer than two criteria changed the criteria or reported a new criterion")
			return is
		}
		if !unchanged() {
			return is
		}
		st.add("mixing_noop_events", 1)
		return is
	}
	var added []critSnap
	for _, c := range out.Crit {
		if _, ok := inC[c.Id]; !ok {
			added = append(added, c)
		}
	}
	if len(added) != 1 || len(outC) != len(inC)+1 {
		add("added-count", fmt.Sprintf("%d new criteria (criteria %v -> %v)", len(added), in.critIds(), out.critIds()))
		return is
	}
	nc := added[0]
	if in.Params.OK && out.Params.OK {
		pi, po := in.Params, out.Params
		if pi.CurrentChoice != po.CurrentChoice || pi.Seed != po.Seed || pi.RandomOrder != po.RandomOrder || pi.Draw != po.Draw || pi.DistA != po.DistA || pi.DistB != po.DistB ||
			(pi.Levels == nil) != (po.Levels == nil) || (pi.Levels != nil && (pi.Levels.Fn != po.Levels.Fn || pi.Levels.Coefficient != po.Levels.Coefficient || pi.Levels.MinValue != po.Levels.MinValue || pi.Levels.MaxValue != po.Levels.MaxValue)) {
			add("added-params-other", fmt.Sprintf("extending the parameters for the new criterion changed a parameter that does not belong to any criterion (current choice / seed / random order / draw policy / distillation function / level function): %+v -> %+v", pi, po))
			return is
		}
		st.add("other_parameters_kept", 1)
	}
	if out.Crit[len(out.Crit)-1].Id != nc.Id {
		add("added-not-appended", "the new criterion is not appended at the end of the criteria")
		return is
	}
	for i := range in.Crit {
		if out.Crit[i] != in.Crit[i] {
			add("existing-criteria", "existing criteria changed or were reordered")
			return is
		}
	}
	if nc.Type != string(model.Gain) {
		add("added-not-gain", "the new criterion '"+nc.Id+"' has type "+nc.Type)
		return is
	}
	if _, usedBefore := critSetOf(&e.Orig)[nc.Id]; usedBefore {
		add("added-id-reused", "the new criterion id '"+nc.Id+"' was used before")
		return is
	}
	for _, a := range outAll {
		if _, ok := a.V[nc.Id]; !ok {
			add("added-value-missing", "alternative "+a.Id+" has no value for the new criterion")
			return is
		}
		have := 0
		for id := range outC { // values for criteria nobody declared may be there as well: they take no part
			if _, ok := a.V[id]; ok {
				have++
			}
		}
		if have != len(outC) {
			add("added-value-missing", "alternative "+a.Id+" does not have exactly one value per criterion")
			return is
		}
	}
	if !unchanged() {
		return is
	}
	calls := findCalls(e, "added")
	var call *listenerCall
	if len(calls) == 1 {
		call = calls[0]
		if call.Crit != nc.Id {
			call = nil
		}
	}
	if call == nil {
		st.add("listener_call_unobserved", 1)
	}
	is = append(is, checkAddedParams("C18", method, e, nc.Id, call, in, out, st)...)
	if len(is) > 0 {
		return is
	}
	is = append(is, checkReferenceCriterion("C18", e, call, e.Props, st)...)
	if len(is) > 0 {
		return is
	}
	if e.Name == "criteriaConcealment" {
		is = append(is, checkConcealedValues(e, nc, call, st)...)
	} else {
		is = append(is, checkMixedValues(e, nc, call, st)...)
	}
	if len(is) == 0 {
		st.add("addition_events", 1)
	}
	return is
}

func scaleAbout(lo, hi, scale float64) (float64, float64) {
	half := (hi - lo) / 2
	return lo + half - half*scale, hi - half + half*scale
}

func checkConcealedValues(e *biasEvent, nc critSnap, call *listenerCall, st *eventStats) []issue {
	var is []issue
	add := func(sig, msg string) {
		is = append(is, issue{"C18", sig, fmt.Sprintf("bias #%d criteriaConcealment: %s", e.Pos, msg)})
	}
	// report
	l, _ := e.Report["addedCriteria"].([]interface{})
	if len(l) != 1 {
		add("concealment-report", fmt.Sprintf("%d added criteria reported", len(l)))
		return is
	}
	rm, _ := l[0].(map[string]interface{})
	av := subM(rm, "alternativesValues")
	for _, a := range e.Out.all() {
		if r, ok := av[a.Id].(float64); !ok || r != a.V[nc.Id] {
			add("concealment-report", fmt.Sprintf("reported value of %s is %v, handed on %v", a.Id, av[a.Id], a.V[nc.Id]))
			return is
		}
	}
	if len(av) != len(e.Out.all()) {
		add("concealment-report", "reported values do not cover exactly the known alternatives")
		return is
	}
	if call == nil {
		return is
	}
	scaling := numOr(e.Props, "newCriterionScaling", 1)
	// reference range: on the state the reference criterion is taken from; accept the original or the current state
	type rg struct{ lo, hi float64 }
	var cands []rg
	if c, ok := e.Orig.crit(call.Ref); ok {
		lo, hi := e.Orig.rng(c)
		cands = append(cands, rg{lo, hi})
	}
	if c, ok := e.In.crit(call.Ref); ok {
		lo, hi := e.In.rng(c)
		cands = append(cands, rg{lo, hi})
	}
	okAny := false
	var firstMsg string
	for _, r := range cands {
		slo, shi := scaleAbout(r.lo, r.hi, scaling)
		hlo, hhi := math.Min(slo, shi), math.Max(slo, shi)
		good := true
		if numOr(e.Props, "allowedValuesRangeScaling", -1) > 0 && slo > shi {
			st.add("outside_domain", 1) // clipping into an inverted range is not specified
			return is
		}
		blo, bhi := boundVal(hlo, e.Props, hlo, hhi), boundVal(hhi, e.Props, hlo, hhi)
		for _, a := range e.Out.all() {
			v := a.V[nc.Id]
			if v < blo-1e-9*(1+math.Abs(blo)) || v > bhi+1e-9*(1+math.Abs(bhi)) {
				good = false
				if firstMsg == "" {
					firstMsg = fmt.Sprintf("value %v of %s lies outside the reference criterion's ('%s') range [%v,%v] scaled by %v and bounded = [%v,%v]", v, a.Id, call.Ref, r.lo, r.hi, scaling, blo, bhi)
				}
				break
			}
		}
		// the declared range of the new criterion is the scaled reference range
		if good && nc.HasRng && !(nearAbs(nc.Lo, slo, hhi-hlo) && nearAbs(nc.Hi, shi, hhi-hlo)) {
			good = false
			if firstMsg == "" {
				firstMsg = fmt.Sprintf("declared range of the new criterion [%v,%v] is not the scaled reference range [%v,%v]", nc.Lo, nc.Hi, slo, shi)
			}
		}
		if good {
			okAny = true
			break
		}
	}
	if !okAny && len(cands) > 0 {
		add("concealment-range", firstMsg)
		return is
	}
	st.add("concealment_events", 1)
	return is
}

func rescaleRef(cr critSnap, v, lo, hi, T float64) float64 {
	scale := 0.0
	if hi-lo != 0 {
		scale = T / (hi - lo)
	}
	if cr.Cost {
		return (hi - v) * scale
	}
	return (v - lo) * scale
}

func checkMixedValues(e *biasEvent, nc critSnap, call *listenerCall, st *eventStats) []issue {
	var is []issue
	add := func(sig, msg string) {
		is = append(is, issue{"C18", sig, fmt.Sprintf("bias #%d criteriaMixing: %s", e.Pos, msg)})
	}
	c1, c2, rn := subM(e.Report, "component1"), subM(e.Report, "component2"), subM(e.Report, "newCriterion")
	id1, id2 := strOr(c1, "id", ""), strOr(c2, "id", "")
	if id1 == id2 {
		add("mixing-same-criterion", "both components are criterion '"+id1+"'")
		return is
	}
	cr1, ok1 := e.In.crit(id1)
	cr2, ok2 := e.In.crit(id2)
	if !ok1 || !ok2 {
		add("mixing-component-unknown", fmt.Sprintf("components '%s','%s' are not both current criteria %v", id1, id2, e.In.critIds()))
		return is
	}
	if strOr(rn, "id", "") != nc.Id {
		add("mixing-report", "reported new criterion id differs from the criterion handed on")
		return is
	}
	r := numOr(e.Props, "mixingRatio", 0.5)
	s1, s2, sn := subM(c1, "scaledValues"), subM(c2, "scaledValues"), subM(rn, "scaledValues")
	if !nc.HasRng || nc.Lo != 0 {
		add("mixing-range", fmt.Sprintf("the mixed criterion's declared range is %v..%v, expected [0,T]", nc.Lo, nc.Hi))
		return is
	}
	T := nc.Hi
	if call != nil {
		if rc, ok := e.In.crit(call.Ref); ok {
			lo, hi := e.In.rng(rc)
			wantT := math.Max(math.Max(math.Abs(lo), math.Abs(hi)), hi-lo)
			if !nearAbs(T, wantT, wantT) {
				add("mixing-target", fmt.Sprintf("target range [0,%v], expected [0,%v] from the reference criterion '%s' range [%v,%v]", T, wantT, call.Ref, lo, hi))
				return is
			}
		}
	}
	lo1, hi1 := e.In.rng(cr1)
	lo2, hi2 := e.In.rng(cr2)
	contained := true
	for _, a := range e.In.all() {
		if a.V[id1] < lo1 || a.V[id1] > hi1 || a.V[id2] < lo2 || a.V[id2] > hi2 {
			contained = false
		}
	}
	for _, a := range e.Out.all() {
		in := a
		for _, x := range e.In.all() {
			if x.Id == a.Id {
				in = x
			}
		}
		x1 := rescaleRef(cr1, in.V[id1], lo1, hi1, T)
		x2 := rescaleRef(cr2, in.V[id2], lo2, hi2, T)
		want := x1*r + x2*(1-r)
		got := a.V[nc.Id]
		if !nearAbs(got, want, T) {
			add("mixing-formula", fmt.Sprintf("%s: mixed value %v, expected %v x %v + %v x %v = %v (components '%s','%s' rescaled to [0,%v])", a.Id, got, r, x1, 1-r, x2, want, id1, id2, T))
			return is
		}
		if contained && (got < math.Min(x1, x2)-1e-9*(1+T) || got > math.Max(x1, x2)+1e-9*(1+T)) {
			add("mixing-between", fmt.Sprintf("%s: mixed value %v is not between the rescaled components %v and %v", a.Id, got, x1, x2))
			return is
		}
		if contained && (x1 < -1e-9*(1+T) || x1 > T*(1+1e-9)+1e-9 || x2 < -1e-9*(1+T) || x2 > T*(1+1e-9)+1e-9) {
			add("mixing-rescale", fmt.Sprintf("%s: rescaled components %v, %v leave [0,%v]", a.Id, x1, x2, T))
			return is
		}
		for _, chk := range []struct {
			m    M
			want float64
			what string
		}{{s1, x1, "component1"}, {s2, x2, "component2"}, {sn, got, "newCriterion"}} {
			if rv, ok := chk.m[a.Id].(float64); !ok || !nearAbs(rv, chk.want, T) {
				add("mixing-report", fmt.Sprintf("%s: reported %s scaled value %v, expected %v", a.Id, chk.what, chk.m[a.Id], chk.want))
				return is
			}
		}
	}
	st.add("mixing_events", 1)
	if cr1.Cost || cr2.Cost {
		st.add("mixing_with_cost", 1)
	}
	return is
}

// ---------------------------------------------------------------------------------------------
// C19 anchoring event

func anchoringFn(f M, d float64) (float64, bool) {
	p := subM(f, "params")
	switch strOr(f, "function", "") {
	case "linear":
		a, b := numOr(p, "a", 0), numOr(p, "b", 0)
		if a == 0 && b == 0 {
			return 0, true
		}
		return a*d + b, true
	case "expFromZero":
		m := numOr(p, "multiplier", 0)
		return m*math.Exp(numOr(p, "alpha", 0)*d) - m, true
	}
	return 0, false
}

func checkAnchoring(method string, e *biasEvent, st *eventStats) []issue {
	var is []issue
	add := func(sig, msg string) {
		is = append(is, issue{"C19", sig, fmt.Sprintf("bias #%d anchoring: %s", e.Pos, msg)})
	}
	in, out := &e.In, &e.Out
	props := e.Props
	aas, _ := props["anchoringAlternatives"].([]interface{})
	if len(aas) == 0 {
		return nil
	}
	rpf := strOr(subM(props, "referencePoints"), "function", "")
	if rpf != "ideal" && rpf != "nadir" {
		st.add("outside_domain", 1)
		return nil
	}
	ideal := rpf == "ideal"
	applier := subM(props, "applier")
	ap := subM(applier, "params")
	inAll, outAll := in.all(), out.all()
	byId := map[string]altSnap{}
	for _, a := range inAll {
		byId[a.Id] = a
	}
	for _, aa := range aas {
		am, _ := aa.(map[string]interface{})
		if co, ok := am["coefficient"].(float64); !ok || co <= 0 {
			st.add("outside_domain", 1) // positive coefficients only
			return nil
		}
		if _, ok := byId[strOr(am, "alternative", "")]; !ok {
			st.add("outside_domain", 1)
			return nil
		}
	}
	rps, _ := e.Report["referencePoints"].([]interface{})
	if len(rps) != 1 {
		add("anchoring-reference-points", fmt.Sprintf("%d reference points reported for strategy %s", len(rps), rpf))
		return is
	}
	rp := subM(rps[0].(map[string]interface{}), "criteria")
	rpId := strOr(rps[0].(map[string]interface{}), "id", "")
	scalingRep := subM(e.Report, "criteriaScaling")
	diffsRep, _ := e.Report["perReferencePointsDifferences"].([]interface{})
	if len(diffsRep) != len(inAll) {
		add("anchoring-differences", fmt.Sprintf("differences reported for %d alternatives, %d known", len(diffsRep), len(inAll)))
		return is
	}
	mapped := map[string]map[string]float64{} // alt -> criterion -> mapped difference
	for _, a := range inAll {
		mapped[a.Id] = map[string]float64{}
	}
	for _, c := range in.Crit {
		// reference point: coefficient-weighted best / worst (value x coef for gain, value / coef for cost; ties by raw value)
		var bestV, bestC float64
		for i, aa := range aas {
			am := aa.(map[string]interface{})
			v, co := byId[am["alternative"].(string)].V[c.Id], am["coefficient"].(float64)
			if i == 0 {
				bestV, bestC = v, co
				continue
			}
			var oldIsWorse bool // is the kept value "worse" than the new one (so ideal replaces it)
			if !c.Cost {
				a, b := bestV*bestC, v*co
				if a == b {
					oldIsWorse = bestV <= v
				} else {
					oldIsWorse = a < b
				}
			} else {
				a, b := bestV*co, v*bestC
				if a == b {
					oldIsWorse = bestV >= v
				} else {
					oldIsWorse = a > b
				}
			}
			if oldIsWorse == ideal {
				bestV, bestC = v, co
			}
		}
		if got, ok := rp[c.Id].(float64); !ok || got != bestV {
			add("anchoring-reference-point", fmt.Sprintf("criterion %s: reference point %v, expected the coefficient-weighted %s value %v", c.Id, rp[c.Id], rpf, bestV))
			return is
		}
		lo, hi := in.rng(c)
		scale := 0.0
		if hi-lo != 0 {
			scale = 1 / (hi - lo)
		}
		sr := subM(scalingRep, c.Id)
		if !nearAbs(numOr(sr, "scale", math.NaN()), scale, scale) {
			add("anchoring-scaling", fmt.Sprintf("criterion %s: reported scale %v, expected 1/range = %v", c.Id, sr["scale"], scale))
			return is
		}
		m := sgnOf(c.Cost)
		for _, a := range inAll {
			d := (a.V[c.Id]*m - bestV*m) * scale
			var mv float64
			var ok bool
			if d > 0 {
				mv, ok = anchoringFn(subM(props, "gain"), d)
			} else {
				mv, ok = anchoringFn(subM(props, "loss"), -d)
				mv = -mv
			}
			if !ok {
				st.add("outside_domain", 1)
				return nil
			}
			mapped[a.Id][c.Id] = mv
		}
	}
	// reported per-reference-point differences
	for i, x := range diffsRep {
		xm, _ := x.(map[string]interface{})
		aid := strOr(subM(xm, "alternative"), "id", "")
		if aid != inAll[i].Id {
			add("anchoring-differences", fmt.Sprintf("difference entry %d is for %s, expected %s", i, aid, inAll[i].Id))
			return is
		}
		rl, _ := xm["referencePointsDifference"].([]interface{})
		if len(rl) != 1 {
			add("anchoring-differences", "not exactly one reference point difference per alternative")
			return is
		}
		co := subM(rl[0].(map[string]interface{}), "coefficients")
		for _, c := range in.Crit {
			if got, ok := co[c.Id].(float64); !ok || !nearAbs(got, mapped[aid][c.Id], mapped[aid][c.Id]) {
				add("anchoring-mapped-difference", fmt.Sprintf("%s/%s: reported mapped difference %v, expected %v (gain if better, -loss otherwise)", aid, c.Id, co[c.Id], mapped[aid][c.Id]))
				return is
			}
		}
	}
	st.add("anchoring_events", 1)
	switch strOr(applier, "function", "") {
	case "inline":
		onNC := boolOr(ap, "applyOnNotConsidered", false)
		if fmt.Sprint(in.Crit) != fmt.Sprint(out.Crit) {
			add("anchoring-inline-criteria", "inline applier changed the criteria")
			return is
		}
		if in.Params.OK && out.Params.OK && !paramsSame(in.Params, out.Params) {
			add("anchoring-inline-params", "inline applier changed the method parameters")
			return is
		}
		for i, a := range inAll {
			for _, c := range in.Crit {
				lo, hi := in.rng(c)
				want := a.V[c.Id]
				if i < len(in.Cons) || onNC {
					want = boundVal(a.V[c.Id]+(hi-lo)*mapped[a.Id][c.Id], ap, lo, hi)
				}
				if !nearAbs(outAll[i].V[c.Id], want, math.Abs(hi)+math.Abs(lo)+math.Abs(want)) {
					add("anchoring-inline-value", fmt.Sprintf("%s/%s: %v -> %v, expected v + range x mapped difference (bounded) = %v (mapped %v, range [%v,%v])", a.Id, c.Id, a.V[c.Id], outAll[i].V[c.Id], want, mapped[a.Id][c.Id], lo, hi))
					return is
				}
			}
		}
		ad, _ := subM(e.Report, "applierResult")["appliedDifferences"].([]interface{})
		expN := len(in.Cons)
		if onNC {
			expN = len(inAll)
		}
		if len(ad) != expN {
			add("anchoring-applied-differences", fmt.Sprintf("%d applied differences reported, expected %d", len(ad), expN))
			return is
		}
		for i, x := range ad {
			xm, _ := x.(map[string]interface{})
			if strOr(xm, "id", "") != inAll[i].Id {
				add("anchoring-applied-differences", "applied differences are not in the order of the alternatives")
				return is
			}
			cv := subM(xm, "criteria")
			for _, c := range in.Crit {
				dv, ok := cv[c.Id].(float64)
				if !ok || dv != outAll[i].V[c.Id]-inAll[i].V[c.Id] {
					add("anchoring-applied-differences", fmt.Sprintf("%s/%s: reported applied difference %v, new - old = %v", inAll[i].Id, c.Id, cv[c.Id], outAll[i].V[c.Id]-inAll[i].V[c.Id]))
					return is
				}
			}
		}
		st.add("anchoring_inline_events", 1)
		zeroG, zeroL := true, true
		for _, a := range inAll {
			for _, c := range in.Crit {
				if mapped[a.Id][c.Id] > 0 {
					zeroG = false
				}
				if mapped[a.Id][c.Id] < 0 {
					zeroL = false
				}
			}
		}
		if zeroG && zeroL {
			st.add("anchoring_zero_functions", 1)
		}
	case "newCriterion":
		ar := subM(e.Report, "applierResult")
		addedRep, _ := ar["addedCriteria"].([]interface{})
		if len(addedRep) != 1 {
			add("anchoring-new-count", fmt.Sprintf("%d criteria added for one reference point", len(addedRep)))
			return is
		}
		arm, _ := addedRep[0].(map[string]interface{})
		newId := strOr(arm, "id", "")
		if _, exists := in.crit(newId); exists {
			add("anchoring-new-id", "the id '"+newId+"' of the new criterion is already used")
			return is
		}
		nc, ok := out.crit(newId)
		if !ok || len(out.Crit) != len(in.Crit)+1 {
			add("anchoring-new-count", fmt.Sprintf("criteria %v -> %v, reported new criterion '%s'", in.critIds(), out.critIds(), newId))
			return is
		}
		_ = rpId
		calls := findCalls(e, "added")
		var call *listenerCall
		if len(calls) == 1 && calls[0].Crit == newId {
			call = calls[0]
		}
		refId := strOr(subM(ar, "referenceCriterion"), "id", "")
		if call != nil && call.Ref != refId {
			add("anchoring-new-reference", "reported reference criterion differs from the one used for the parameters")
			return is
		}
		rc, ok := in.crit(refId)
		if !ok {
			add("anchoring-new-reference", "reference criterion '"+refId+"' is not a current criterion")
			return is
		}
		if nc.Type != rc.Type {
			add("anchoring-new-type", "the new criterion's type differs from the reference criterion's")
			return is
		}
		// existing values untouched, everybody has a value
		for i, a := range inAll {
			for id, v := range a.V {
				if outAll[i].V[id] != v {
					add("anchoring-new-existing", fmt.Sprintf("existing value %s/%s changed", a.Id, id))
					return is
				}
			}
			if _, ok := outAll[i].V[newId]; !ok {
				add("anchoring-new-value", "alternative "+a.Id+" has no value for the new criterion")
				return is
			}
		}
		is = append(is, checkAddedParams("C19", method, e, newId, call, in, out, st)...)
		if len(is) > 0 {
			return is
		}
		is = append(is, checkReferenceCriterion("C19", e, call, ap, st)...)
		if len(is) > 0 {
			return is
		}
		// value = mid-range + half-range x importance-weighted mean of the mapped differences, then bounding
		lo, hi := in.rng(rc)
		mid, half := lo+(hi-lo)/2, (hi-lo)/2
		av := subM(arm, "alternativesValues")
		for i, a := range inAll {
			mn, mx := math.Inf(1), math.Inf(-1)
			for _, c := range in.Crit {
				mn, mx = math.Min(mn, mapped[a.Id][c.Id]), math.Max(mx, mapped[a.Id][c.Id])
			}
			if lo > hi && numOr(ap, "allowedValuesRangeScaling", -1) > 0 {
				st.add("outside_domain", 1) // clipping into an inverted (negatively scaled) reference range is not specified
				break
			}
			e1, e2 := mid+half*mn, mid+half*mx
			l, h := boundVal(math.Min(e1, e2), ap, lo, hi), boundVal(math.Max(e1, e2), ap, lo, hi)
			got := outAll[i].V[newId]
			tol := 1e-9 * (1 + math.Abs(lo) + math.Abs(hi) + math.Abs(half*mn) + math.Abs(half*mx))
			if got < l-tol || got > h+tol {
				add("anchoring-new-value", fmt.Sprintf("%s: new criterion value %v outside mid +- half x [min,max mapped difference] = [%v,%v] (mid %v half %v)", a.Id, got, l, h, mid, half))
				return is
			}
			if rv, ok := av[a.Id].(float64); !ok || rv != got {
				add("anchoring-new-report", fmt.Sprintf("%s: reported value %v, handed on %v", a.Id, av[a.Id], got))
				return is
			}
		}
		st.add("anchoring_newcriterion_events", 1)
	default:
		st.add("outside_domain", 1)
	}
	return is
}

// ---------------------------------------------------------------------------------------------
// dispatcher

func checkTrace(method string, tr *trace, st *eventStats) []issue {
	var is []issue
	for _, e := range tr.Bias {
		st.add("bias_events", 1)
		st.add("events:"+e.Name, 1)
		if e.Name == "criteriaMixing" && e.NilReport && !e.SameDMP && len(e.In.Crit) < 2 {
			// below two criteria mixing does nothing: whatever object it returns carries the data and parameters it received
			diff := snapEqualData(&e.In, &e.Out)
			if diff == "" && !reflect.DeepEqual(e.In.Params, e.Out.Params) {
				diff = "method parameters differ"
			}
			if diff != "" {
				is = append(is, issue{"C18", "mixing-noop-changed-state", fmt.Sprintf("bias #%d criteriaMixing (fewer than two criteria) reports nothing but hands on other data than it received: %s", e.Pos, diff)})
				is = append(is, issue{"C07", "earlier-bias-effects-lost", fmt.Sprintf("bias #%d criteriaMixing (fewer than two criteria, nothing to do) hands on other data than it received - what earlier biases did is no longer in force: %s", e.Pos, diff)})
			} else {
				st.add("mixing_noop_events", 1)
			}
			continue
		}
		if e.Name == "criteriaMixing" && e.NilReport && e.SameDMP {
			// mixing below two criteria hands its input on unchanged
			if len(e.In.Crit) >= 2 {
				is = append(is, issue{"C18", "mixing-skipped", fmt.Sprintf("bias #%d criteriaMixing did nothing although %d criteria exist", e.Pos, len(e.In.Crit))})
			} else {
				st.add("mixing_noop_events", 1)
			}
			continue
		}
		is = append(is, checkCoherence(method, e, st)...)
		switch e.Name {
		case "criteriaOmission":
			is = append(is, checkOmission(method, e, st)...)
		case "preferenceReversal":
			is = append(is, checkReversal(method, e, st)...)
		case "fatigue":
			is = append(is, checkFatigue(method, e, st)...)
		case "criteriaConcealment", "criteriaMixing":
			is = append(is, checkAddition(method, e, st)...)
		case "anchoring":
			is = append(is, checkAnchoring(method, e, st)...)
		}
	}
	is = append(is, checkChain(tr)...)
	return is
}

// checkReceived: the data the first stage worked on is the request as sent - criteria (id, type, declared range, order)
// and the values of every known alternative on the declared criteria, split into considered (choseToMake order) and the
// rest. Every oracle over decorator snapshots presupposes this; it fails when the service hands the library something
// else than it was sent (a recycled request object, a decoder that keeps earlier fields).
func checkReceived(d decision) string {
	if d.sent == nil || d.Trace == nil {
		return ""
	}
	var first *dmpSnap
	if len(d.Trace.Bias) > 0 {
		first = &d.Trace.Bias[0].In
	} else if d.Trace.Eval != nil {
		first = &d.Trace.Eval.Before
	}
	if first == nil {
		return ""
	}
	want := snapCrit(d.sent.Criteria)
	if len(want) != len(first.Crit) {
		return fmt.Sprintf("the request declares %d criteria, the first stage received %d", len(want), len(first.Crit))
	}
	for i, w := range want {
		g := first.Crit[i]
		if w.Id != g.Id || w.Type != g.Type || w.HasRng != g.HasRng || (w.HasRng && (w.Lo != g.Lo || w.Hi != g.Hi)) {
			return fmt.Sprintf("criterion #%d was sent as %+v and received by the first stage as %+v", i, w, g)
		}
	}
	sent := map[string]map[string]float64{}
	for _, a := range d.sent.KnownAlternatives {
		sent[a.Id] = a.Criteria
	}
	got := first.all()
	if len(got) != len(sent) {
		return fmt.Sprintf("the request knows %d alternatives, the first stage received %d", len(sent), len(got))
	}
	for _, a := range got {
		s, ok := sent[a.Id]
		if !ok {
			return fmt.Sprintf("the first stage received alternative '%s' which the request does not know", a.Id)
		}
		for _, w := range want {
			if sv, gv := s[w.Id], a.V[w.Id]; sv != gv {
				return fmt.Sprintf("value of '%s' on '%s' was sent as %v and received by the first stage as %v", a.Id, w.Id, sv, gv)
			}
		}
	}
	var named []string // an alternative named twice is considered once, at its first position
	seenName := map[string]bool{}
	for _, id := range d.sent.ChoseToMake {
		if !seenName[string(id)] {
			seenName[string(id)] = true
			named = append(named, string(id))
		}
	}
	if len(first.Cons) != len(named) {
		return fmt.Sprintf("choseToMake names %d alternatives, the first stage considers %d", len(named), len(first.Cons))
	}
	for i, id := range named {
		if first.Cons[i].Id != id {
			return fmt.Sprintf("considered alternative #%d is '%s', choseToMake has '%s' there", i, first.Cons[i].Id, id)
		}
	}
	return ""
}
