package main

// Diagnostic (not a property check, not in MANIFEST): which rejected requests have a body that varies between
// repetitions even after normalisation? Run with: bin/check ZZ1

import "fmt"

func zz1(c *caseCtx) {
	cases := constraintCases(c.rng)
	for i := 0; i < 300; i++ {
		g := c02Gen(c.rng, i)
		if g.invalid {
			cases = append(cases, hostile{kind: "c02Gen-invalid", body: g.body(), req: g.M})
		}
	}
	varying := 0
	for _, h := range cases {
		seen := map[string]bool{}
		for rep := 0; rep < 25; rep++ {
			st, b := httpInproc("POST", "/api/decide", h.body)
			if st == 200 {
				break
			}
			seen[normaliseError(b)] = true
		}
		if len(seen) > 1 {
			varying++
			var ex []string
			for k := range seen {
				if len(ex) < 2 {
					if len(k) > 300 {
						k = k[:300]
					}
					ex = append(ex, k)
				}
			}
			fmt.Printf("VARYING %s: %d distinct bodies, e.g. %q\n", h.kind, len(seen), ex)
		}
	}
	fmt.Printf("zz1: %d rejected request kinds checked, %d with varying normalised bodies\n", len(cases), varying)
	c.count("evaluations", len(cases))
	c.distinct("a")
	c.distinct("b")
}

func init() {
	register(&propDef{id: "ZZ1", rule: "diagnostic", streams: []*stream{{name: "diag", n: func(string) int { return 1 }, unit: 1, run: zz1}}})
}
