package main

// C04 — a utility ranking is exactly the order of the utilities.

import (
	"fmt"
	"sort"
	"strings"

	"github.com/Azbesciak/RealDecisionMaker/lib/model"
)

type rankedVal struct {
	id    string
	value float64
	links []string
}

// c04Oracle checks order, exact link sets and link closure from the reported (rounded) values
func c04Oracle(entries []rankedVal) string {
	n := len(entries)
	for i := 1; i < n; i++ {
		a, b := entries[i-1], entries[i]
		if a.value < b.value {
			return fmt.Sprintf("order: %s (%v) is listed before %s (%v)", a.id, a.value, b.id, b.value)
		}
		if a.value == b.value && !(a.id < b.id) {
			return fmt.Sprintf("order: equal values but '%s' is listed before '%s'", a.id, b.id)
		}
	}
	vals := map[float64]bool{}
	for _, e := range entries {
		vals[e.value] = true
	}
	distinct := make([]float64, 0, len(vals))
	for v := range vals {
		distinct = append(distinct, v)
	}
	sort.Sort(sort.Reverse(sort.Float64Slice(distinct)))
	nextLower := map[float64]float64{}
	hasLower := map[float64]bool{}
	for i, v := range distinct {
		if i+1 < len(distinct) {
			nextLower[v] = distinct[i+1]
			hasLower[v] = true
		}
	}
	byId := map[string]rankedVal{}
	for _, e := range entries {
		byId[e.id] = e
	}
	for _, e := range entries {
		want := map[string]bool{}
		for _, o := range entries {
			if o.id == e.id {
				continue
			}
			if o.value == e.value || (hasLower[e.value] && o.value == nextLower[e.value]) {
				want[o.id] = true
			}
		}
		got := map[string]bool{}
		for _, l := range e.links {
			if got[l] {
				return fmt.Sprintf("links of %s name %s twice", e.id, l)
			}
			got[l] = true
		}
		if len(got) != len(want) {
			return fmt.Sprintf("links of %s (%v) are %v, expected exactly %v", e.id, e.value, e.links, keysOf(want))
		}
		for l := range want {
			if !got[l] {
				return fmt.Sprintf("links of %s (%v) are %v, expected exactly %v", e.id, e.value, e.links, keysOf(want))
			}
		}
	}
	// closure: following links from e reaches precisely the alternatives whose value is not higher
	for _, e := range entries {
		reach := map[string]bool{}
		stack := []string{e.id}
		for len(stack) > 0 {
			x := stack[len(stack)-1]
			stack = stack[:len(stack)-1]
			for _, l := range byId[x].links {
				if !reach[l] {
					reach[l] = true
					stack = append(stack, l)
				}
			}
		}
		for _, o := range entries {
			if o.id == e.id {
				continue
			}
			if (o.value <= e.value) != reach[o.id] {
				return fmt.Sprintf("closure of %s: reaches %s = %v but values are %v vs %v", e.id, o.id, reach[o.id], e.value, o.value)
			}
		}
	}
	return ""
}

func keysOf(m map[string]bool) []string {
	ks := make([]string, 0, len(m))
	for k := range m {
		ks = append(ks, k)
	}
	sort.Strings(ks)
	return ks
}

func entriesOfView(v *respView) ([]rankedVal, bool) {
	out := make([]rankedVal, len(v.Result))
	for i, e := range v.Result {
		val, ok := e.Evaluation["value"].(float64)
		if !ok {
			return nil, false
		}
		out[i] = rankedVal{e.Alternative.Id, val, e.BetterThanOrSameAs}
	}
	return out, true
}

func tiePattern(entries []rankedVal) string {
	// sizes of the groups of equal values, best first
	s := ""
	run := 0
	for i, e := range entries {
		if i > 0 && e.value != entries[i-1].value {
			s += fmt.Sprint(run) + "."
			run = 0
		}
		run++
	}
	return s + fmt.Sprint(run)
}

// --- exhaustive: all value vectors in {0..3}^n, n<=6, through Ranking() and through weightedSum ---

func c04VectorCount() int {
	t := 0
	p := 1
	for n := 1; n <= 6; n++ {
		p *= 4
		t += p
	}
	return t
}

func c04Vector(idx int) []int {
	p := 1
	for n := 1; n <= 6; n++ {
		p *= 4
		if idx < p {
			v := make([]int, n)
			for i := range v {
				v[i] = idx % 4
				idx /= 4
			}
			return v
		}
		idx -= p
	}
	return nil
}

func c04Exhaustive(c *caseCtx) {
	vec := c04Vector(c.idx)
	n := len(vec)
	ids := []string{"d", "a", "f", "b", "e", "c"}[:n] // not in alphabetical order on purpose
	// (1) the exported Ranking()
	res := make(model.AlternativeResults, n)
	for i, v := range vec {
		res[i] = *model.ValueAlternativeResult(&model.AlternativeWithCriteria{Id: ids[i], Criteria: model.Weights{"c": float64(v)}}, float64(v))
	}
	rk := res.Ranking()
	entries := make([]rankedVal, len(*rk))
	for i, e := range *rk {
		entries[i] = rankedVal{e.Alternative.Id, e.Value(), append([]string{}, e.BetterThanOrSameAs...)}
	}
	c.count("evaluations", 1)
	if len(entries) != n {
		c.violate("ranking-size", "Ranking() changed the number of entries", M{"values": vec})
		return
	}
	if msg := c04Oracle(entries); msg != "" {
		c.violate("ranking-links", "Ranking(): "+msg, M{"ids": ids, "values": vec})
		return
	}
	// (2) end to end through weightedSum (one gain criterion, weight 1)
	var alts, chose []interface{}
	for i, v := range vec {
		alts = append(alts, M{"id": ids[i], "criteria": M{"c": float64(v)}})
		chose = append(chose, ids[i])
	}
	req := M{"preferenceFunction": "weightedSum", "knownAlternatives": alts, "choseToMake": chose,
		"criteria": []interface{}{M{"id": "c", "type": "gain"}}, "methodParameters": M{"weights": M{"c": 1.0}}}
	g := &genReq{M: req, method: "weightedSum"}
	d := decide(g.body(), false)
	c.count("evaluations", 1)
	if !d.OK {
		c.violate("rejected-valid", "weightedSum request rejected: "+d.Err, M{"request": req})
		return
	}
	es, ok := entriesOfView(d.View)
	if !ok || len(es) != n {
		c.violate("ranking-size", "response entries malformed", M{"request": req})
		return
	}
	for _, e := range es {
		for i, id := range ids {
			if id == e.id && e.value != float64(vec[i]) {
				c.violate("value-changed", fmt.Sprintf("%s has value %v, expected %v", id, e.value, vec[i]), M{"request": req})
				return
			}
		}
	}
	if msg := c04Oracle(es); msg != "" {
		c.violate("ranking-links", "weightedSum end to end: "+msg, M{"request": req, "result": d.View.Result})
		return
	}
	tp := tiePattern(es)
	if n >= 2 {
		c.count("nontrivial", 1)
		c.distinct("exh|" + tp)
	}
	if c.idx == 4321 {
		c.sample(M{"values": vec, "ids": ids, "ranking": entries})
	}
}

// --- sampled: up to 12 alternatives, block ties, values around a rounding boundary, permutations ---

func c04Sampled(c *caseCtx) {
	method := []string{"weightedSum", "owa", "choquetIntegral"}[c.idx%3]
	o := genOpts{method: method, minAlt: 2, maxAlt: 12, minCrit: 1, maxCrit: 3, allCons: c.idx % 2, negValues: true}
	if c.rng.Intn(2) == 0 {
		o.profile = profTies
	}
	if c.rng.Intn(4) == 0 {
		o.minAlt, o.maxAlt, o.profile = 13, 40, profTies // sorting algorithms change strategy above a dozen elements
	}
	g := genRequest(c.rng, o)
	alts := g.M["knownAlternatives"].([]interface{})
	mode := c.rng.Intn(4)
	if mode == 3 {
		// utilities of very different magnitude (1e9 .. 4e12): the order and the tie classes are those of the values
		scale := []float64{1e9, 1e11, 4e12}[c.rng.Intn(3)]
		for _, a := range alts {
			cv := a.(M)["criteria"].(M)
			for k, v := range cv {
				cv[k] = v.(float64) * scale
			}
		}
	}
	if mode == 1 {
		// values that differ by less than the API's rounding step around a common base
		base := quarter(c.rng, 0, 8)
		for _, a := range alts {
			cv := a.(M)["criteria"].(M)
			first := true
			for _, k := range sortedKeysM(cv) {
				if first {
					cv[k] = base + float64(c.rng.Intn(7)-3)*0.25e-8
					first = false
				} else {
					cv[k] = 0.0
				}
			}
		}
	}
	body := g.body()
	d := decide(body, false)
	c.count("evaluations", 1)
	if !d.OK {
		c.count("rejected", 1)
		return
	}
	es, ok := entriesOfView(d.View)
	if !ok {
		c.violate("no-value", "evaluation.value missing", M{"request": g.M})
		return
	}
	if msg := c04Oracle(es); msg != "" {
		c.violate("ranking-links", msg, M{"request": g.M, "result": d.View.Result})
		return
	}
	if len(es) >= 2 {
		c.count("nontrivial", 1)
		c.distinct(method + "|" + tiePattern(es))
	}
	// metamorphic: permute knownAlternatives and choseToMake; value, class and link set per alternative stay
	base := map[string]rankedVal{}
	for _, e := range es {
		base[e.id] = e
	}
	for rep := 0; rep < 3; rep++ {
		p := deepCopyM(g.M)
		ka := p["knownAlternatives"].([]interface{})
		c.rng.Shuffle(len(ka), func(i, j int) { ka[i], ka[j] = ka[j], ka[i] })
		ch := p["choseToMake"].([]interface{})
		c.rng.Shuffle(len(ch), func(i, j int) { ch[i], ch[j] = ch[j], ch[i] })
		g2 := &genReq{M: p, method: method}
		d2 := decide(g2.body(), false)
		c.count("evaluations", 1)
		c.count("permutations", 1)
		if !d2.OK {
			c.violate("perm-rejected", "permuted request rejected: "+d2.Err, M{"request": g.M, "permuted": p})
			return
		}
		es2, _ := entriesOfView(d2.View)
		if len(es2) != len(es) {
			c.violate("perm-size", "permuted request gives another number of entries", M{"request": g.M, "permuted": p})
			return
		}
		for _, e := range es2 {
			b := base[e.id]
			if e.value != b.value {
				c.violate("perm-value", fmt.Sprintf("value of %s depends on listing order: %v vs %v", e.id, b.value, e.value), M{"request": g.M, "permuted": p})
				return
			}
			if fmt.Sprint(sortedStrings(e.links)) != fmt.Sprint(sortedStrings(b.links)) {
				c.violate("perm-links", fmt.Sprintf("links of %s depend on listing order: %v vs %v", e.id, b.links, e.links), M{"request": g.M, "permuted": p})
				return
			}
		}
		if msg := c04Oracle(es2); msg != "" {
			c.violate("ranking-links", "permuted: "+msg, M{"request": p})
			return
		}
	}
	if c.idx%1999 == 0 {
		c.sample(M{"request": g.M, "result": d.View.Result})
	}
}

// biases (mixing, reversal, omission, anchoring) whose effect is a deterministic function of the data (no per-alternative random draw): the utilities after them
// are still independent of the listing order. Dyadic / small-integer values keep every accumulation over alternatives
// (importance sums, observed ranges) exact, so no order of summation can matter.
func c04Biased(c *caseCtx) {
	method := []string{"weightedSum", "owa", "choquetIntegral"}[c.idx%3]
	o := genOpts{method: method, minAlt: 3, maxAlt: 8, minCrit: 2, maxCrit: 4, allCons: c.idx % 2, negValues: true, allFire: true,
		profile: []string{profTies, profDyadic}[c.rng.Intn(2)], anchorZeroCoef: true, noRandom: true}
	// mixing and anchoring produce values that are no longer exactly representable; a later stage that ranks the criteria by
	// sums over the alternatives would then add them up in listing order and may break an (on paper) tie either way - which
	// the property does not forbid. So they only come last; before them only omission and reversal (exact on exact data).
	o.biasSeq = []string{pick(c.rng, []string{"criteriaMixing", "preferenceReversal", "criteriaOmission", "anchoring"})}
	if c.rng.Intn(2) == 0 {
		o.biasSeq = append([]string{pick(c.rng, []string{"preferenceReversal", "criteriaOmission"})}, o.biasSeq...)
	}
	g := genRequest(c.rng, o)
	d := decide(g.body(), false)
	c.count("evaluations", 1)
	if !d.OK {
		c.count("rejected", 1)
		if strings.HasPrefix(d.Err, "marshal:") {
			// the method did return a ranking, but one that cannot be written as JSON: utilities that are not numbers
			// (NaN, Inf) have no order, so "non-increasing value" cannot hold
			c.violate("utilities-not-numbers", "the ranking returned by the library carries utilities that are not finite numbers: "+d.Err, M{"request": g.M})
		}
		return
	}
	es, ok := entriesOfView(d.View)
	if !ok {
		c.violate("no-value", "evaluation.value missing", M{"request": g.M})
		return
	}
	if msg := c04Oracle(es); msg != "" {
		c.violate("ranking-links", msg, M{"request": g.M, "result": d.View.Result})
		return
	}
	base := map[string]rankedVal{}
	for _, e := range es {
		base[e.id] = e
	}
	for rep := 0; rep < 3; rep++ {
		p := deepCopyM(g.M)
		ka := p["knownAlternatives"].([]interface{})
		c.rng.Shuffle(len(ka), func(i, j int) { ka[i], ka[j] = ka[j], ka[i] })
		ch := p["choseToMake"].([]interface{})
		c.rng.Shuffle(len(ch), func(i, j int) { ch[i], ch[j] = ch[j], ch[i] })
		d2 := decide((&genReq{M: p, method: method}).body(), false)
		c.count("evaluations", 1)
		c.count("permutations_after_biases", 1)
		if !d2.OK {
			c.violate("perm-rejected", "permuted request rejected: "+d2.Err, M{"request": g.M, "permuted": p})
			return
		}
		es2, _ := entriesOfView(d2.View)
		if len(es2) != len(es) {
			c.violate("perm-size", "permuted request gives another number of entries", M{"request": g.M, "permuted": p})
			return
		}
		for _, e := range es2 {
			b := base[e.id]
			if e.value != b.value {
				c.violate("perm-value", fmt.Sprintf("value of %s (after deterministic biases) depends on listing order: %v vs %v", e.id, b.value, e.value), M{"request": g.M, "permuted": p})
				return
			}
			if fmt.Sprint(sortedStrings(e.links)) != fmt.Sprint(sortedStrings(b.links)) {
				c.violate("perm-links", fmt.Sprintf("links of %s (after deterministic biases) depend on listing order: %v vs %v", e.id, b.links, e.links), M{"request": g.M, "permuted": p})
				return
			}
		}
	}
	if len(es) >= 2 {
		c.count("nontrivial", 1)
		c.distinct("biased|" + method + "|" + tiePattern(es))
	}
}

func sortedKeysM(m M) []string {
	ks := make([]string, 0, len(m))
	for k := range m {
		ks = append(ks, k)
	}
	sort.Strings(ks)
	return ks
}

func init() {
	register(&propDef{
		id: "C04",
		rule: "exhaustive stream: every value vector in {0,1,2,3}^n for n<=6 (5460 vectors) through model.AlternativeResults.Ranking() and through weightedSum end to end; " +
			"sampled stream: weightedSum/owa/choquet with 2..40 alternatives, tie-heavy, rounding-boundary (steps of 0.25e-8) and huge (x1e9..4e12) values, each with 3 random permutations of " +
			"knownAlternatives and choseToMake. Oracle: order (value desc, id asc), exact link sets, link closure = {value <= own}; per-alternative invariance under " +
			"permutation. Non-trivial = >=2 entries; distinct = distinct (stream/method, sizes of equal-value groups best first).",
		assumptions: []string{"the oracle works from the reported (already rounded) values, as the statement does"},
		streams: []*stream{
			{name: "exhaustive", n: func(string) int { return c04VectorCount() }, unit: 1400, run: c04Exhaustive, exhaustive: true,
				note: "all value vectors in {0..3}^n, n<=6"},
			{name: "sampled-biased", n: tierN(6000, 100000), unit: 1500, run: c04Biased, floors: map[string]int64{"permutations_after_biases": 9000},
				note: "1..2 fired biases out of mixing / reversal / omission / anchoring (no per-alternative random draws; anchoring alternatives with and without coefficients), exact (dyadic / small-integer) data, values outside declared ranges included: value, class and links per alternative under 3 permutations"},
			{name: "concealedIds", n: tierN(3000, 50000), unit: 1500, run: c04ConcealedIds, floors: map[string]int64{"permutations_after_concealment": 8000},
				note: "weighted sum after a seeded criteria concealment on alternatives whose ids mix numeric suffixes and free text (a9, a10, a1x, 10, 9, ...): 4 listing permutations each"},
			{name: "sampled-service", n: tierN(2000, 30000), unit: 1000, run: c04Sampled, service: true,
				note: "the same generator and oracle as the stream named in front of the dash, but every request goes through decideHandler of main.go in-process (gin binding, the handler's own request object) after a history of 1..3 unrelated requests (accepted and rejected)"},
			{name: "sampled", n: tierN(6000, 150000), unit: 1500, run: c04Sampled, floors: map[string]int64{"permutations": 10000, "nontrivial": 4000}},
		},
	})
}
