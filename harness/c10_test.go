package main

// C10 — concurrent requests do not influence each other (race detector + byte equality with the sequential baseline).

import (
	"bytes"
	"fmt"
	"io/ioutil"
	"math/rand"
	"os"
	"path/filepath"
	"regexp"
	"runtime"
	"sort"
	"strings"
	"sync"
	"sync/atomic"
	"time"
)

func c10Corpus(r *rand.Rand, n int) ([]*genReq, [][]byte) {
	gs := make([]*genReq, n)
	bs := make([][]byte, n)
	for i := range gs {
		gs[i] = c02Gen(r, i) // all methods, 0..3 biases, ~10% rejected (validation panics next to successes)
		bs[i] = gs[i].body()
	}
	// every entry of the constraint catalogue once (one applicable method each): all validation paths run next to successes
	for _, cst := range constraints {
		ms := cst.methods
		if ms == nil {
			ms = methods
		}
		g := validBase(ms[r.Intn(len(ms))], r)
		cst.apply(g.M)
		g.invalid = true
		gs = append(gs, g)
		bs = append(bs, g.body())
	}
	return gs, bs
}

var reRaceNoise = regexp.MustCompile(`0x[0-9a-f]+|goroutine \d+|:\d+ \+|T\d+|\+0x[0-9a-f]+`)

// raceReports reads the race detector's log files with the given prefix
func raceReports(prefix string) (blocks int, distinct map[string]string) {
	distinct = map[string]string{}
	files, _ := filepath.Glob(prefix + "*")
	for _, f := range files {
		b, err := ioutil.ReadFile(f)
		if err != nil {
			continue
		}
		parts := strings.Split(string(b), "WARNING: DATA RACE")
		for _, p := range parts[1:] {
			blocks++
			if i := strings.Index(p, "=================="); i >= 0 {
				p = p[:i]
			}
			// dedupe by the stacks with addresses / goroutine ids stripped
			var fn []string
			for _, line := range strings.Split(p, "\n") {
				line = strings.TrimSpace(line)
				if strings.HasSuffix(line, ")") && !strings.HasPrefix(line, "/") && strings.Contains(line, "(") {
					fn = append(fn, reRaceNoise.ReplaceAllString(line, ""))
				}
			}
			key := strings.Join(fn, "|")
			if _, ok := distinct[key]; !ok {
				if len(p) > 2500 {
					p = p[:2500]
				}
				distinct[key] = p
			}
		}
	}
	return
}

type c10Obs struct {
	idx       int
	call, ret int64
	client    int
}

func overlapStats(obs []c10Obs, gs []*genReq) (pairs int64, maxInFlight int, methodPairs map[string]bool, identical int64) {
	methodPairs = map[string]bool{}
	sort.Slice(obs, func(i, j int) bool { return obs[i].call < obs[j].call })
	var active []c10Obs
	for _, o := range obs {
		k := 0
		for _, a := range active {
			if a.ret > o.call {
				active[k] = a
				k++
			}
		}
		active = active[:k]
		for _, a := range active {
			pairs++
			ma, mb := gs[a.idx].method, gs[o.idx].method
			if ma > mb {
				ma, mb = mb, ma
			}
			methodPairs[ma+"+"+mb] = true
			if a.idx == o.idx {
				identical++
			}
		}
		active = append(active, o)
		if len(active) > maxInFlight {
			maxInFlight = len(active)
		}
	}
	return
}

var c10Configs = []struct{ clients, procs int }{{8, 4}, {32, 16}, {64, 1}, {2, 16}, {16, 4}, {64, 16}}

func c10Server(c *caseCtx) {
	cfg := c10Configs[c.idx%len(c10Configs)]
	N := 160
	if c.tier == "thorough" {
		N = 500
	}
	gs, bodies := c10Corpus(c.rng, N)
	N = len(bodies)
	// a second baseline through the library in this (fresh) process: the valid requests first, so that nothing a
	// rejected request may leave behind in shared state can be part of it
	libBase := make([]decision, N)
	for pass := 0; pass < 2; pass++ {
		for i := range bodies {
			if gs[i].invalid == (pass == 1) {
				libBase[i] = decide(bodies[i], false)
			}
		}
	}
	prefix := filepath.Join(*fWorkDir, fmt.Sprintf("race-srv-%d-%d", os.Getpid(), c.idx))
	s, err := startServer("GORACE=halt_on_error=0 log_path="+prefix, fmt.Sprintf("GOMAXPROCS=%d", cfg.procs))
	if err != nil {
		c.inconclusive("race-instrumented service did not start: " + err.Error())
		return
	}
	defer func() {
		s.stop()
		files, _ := filepath.Glob(prefix + "*")
		for _, f := range files {
			os.Remove(f)
		}
	}()
	type base struct {
		status int
		body   string
	}
	// concurrent phase on the COLD process (lazily initialised shared state is hit by simultaneous first requests);
	// every corpus entry is sent 4 times; in even rounds the copies are adjacent (identical requests in flight together)
	var jobs []int
	for i := 0; i < N; i++ {
		for k := 0; k < 4; k++ {
			jobs = append(jobs, i)
		}
	}
	if c.idx%2 == 1 {
		c.rng.Shuffle(len(jobs), func(i, j int) { jobs[i], jobs[j] = jobs[j], jobs[i] })
	}
	ch := make(chan int, len(jobs))
	for _, j := range jobs {
		ch <- j
	}
	close(ch)
	var mu sync.Mutex
	var obs []c10Obs
	type bad struct {
		idx    int
		status int
		body   string
		err    string
	}
	var bads []bad
	type got struct {
		idx    int
		status int
		body   string
		err    string
	}
	var gots []got
	var wg sync.WaitGroup
	var unanswered int32
	startGate := make(chan struct{})
	for cl := 0; cl < cfg.clients; cl++ {
		wg.Add(1)
		go func(cl int) {
			defer wg.Done()
			<-startGate
			for i := range ch {
				if atomic.LoadInt32(&unanswered) != 0 {
					continue // a request went unanswered: drain the queue, the round is decided below
				}
				r := s.post(bodies[i])
				if r.err != nil {
					atomic.StoreInt32(&unanswered, 1)
				}
				body := string(bytes.TrimSpace(r.body))
				if r.err == nil && r.status != 200 {
					body = normaliseError(bytes.TrimSpace(r.body))
				}
				mu.Lock()
				obs = append(obs, c10Obs{i, r.call, r.ret, cl})
				if r.err != nil {
					gots = append(gots, got{i, 0, "", r.err.Error()})
				} else {
					gots = append(gots, got{i, r.status, body, ""})
				}
				mu.Unlock()
			}
		}(cl)
	}
	close(startGate)
	wg.Wait()
	if atomic.LoadInt32(&unanswered) != 0 && s.alive() {
		// alive, but a request of the concurrent phase never got its answer: what is its handler doing?
		var which M
		for _, g := range gots {
			if g.err != "" {
				which = M{"request": gs[g.idx].M, "error": g.err}
				break
			}
		}
		if blocked, where := s.handlerBlocked(); blocked {
			which["goroutine"] = where
			c.violate("no-answer", "a request sent next to others never got an answer: its handler goroutine is parked and nothing else of the service is running", which)
		} else {
			c.inconclusive("a concurrent request got no answer within the client timeout, the service is alive and not parked")
		}
		return
	}
	// sequential baseline from the same process, one request at a time (the service is deterministic, so taking it
	// after the concurrent phase is as good as before - and leaves the process cold for the concurrent phase)
	baseline := make([]base, N)
	if s.alive() {
		for i, b := range bodies {
			r := s.post(b)
			c.count("evaluations", 1)
			if r.err != nil {
				c.violate("no-answer", fmt.Sprintf("sequential baseline request got no answer: %v", r.err), M{"request": gs[i].M, "service_output": s.logTail(800)})
				return
			}
			baseline[i] = base{r.status, string(bytes.TrimSpace(r.body))}
			if r.status != 200 {
				baseline[i].body = normaliseError(bytes.TrimSpace(r.body))
			}
		}
		for _, g := range gots {
			if g.err != "" {
				bads = append(bads, bad{g.idx, 0, "", g.err})
			} else if g.status != baseline[g.idx].status || (g.status == 200 && g.body != baseline[g.idx].body) {
				// rejected requests are compared on the status only: the wording of a rejection is not unique even for one
				// request alone (which offending map key is named first depends on map iteration order)
				bads = append(bads, bad{g.idx, g.status, g.body, ""})
			} else if (g.status == 200) != libBase[g.idx].OK || (g.status == 200 && g.body != string(libBase[g.idx].JSON)) {
				bads = append(bads, bad{g.idx, g.status, g.body, ""})
				baseline[g.idx] = base{map[bool]int{true: 200, false: 400}[libBase[g.idx].OK], string(libBase[g.idx].JSON)}
			}
		}
	}
	c.count("evaluations", len(jobs))
	c.count("concurrent_requests", len(jobs))
	alive := s.alive()
	tail := ""
	if !alive {
		tail = s.logTail(1500)
	}
	pairs, maxIn, mp, ident := overlapStats(obs, gs)
	c.count("overlapping_pairs", int(pairs))
	c.count("identical_request_overlaps", int(ident))
	if int64(maxIn) > c.res.Counters["max_in_flight"] {
		c.res.Counters["max_in_flight"] = int64(maxIn)
	}
	for k := range mp {
		c.distinct("overlap|" + k)
	}
	c.count("rounds", 1)
	if !alive {
		c.violate("service-died", "the service process died under concurrent load", M{"clients": cfg.clients, "gomaxprocs": cfg.procs, "service_output": tail})
		return
	}
	if len(bads) > 0 {
		b := bads[0]
		if b.err != "" {
			c.violate("no-answer", "a concurrent request got no answer: "+b.err, M{"request": gs[b.idx].M})
		} else {
			c.violate("differs-from-sequential", fmt.Sprintf("%d of %d concurrent responses differ from the response the same request gets alone (status %d vs %d)", len(bads), len(jobs), b.status, baseline[b.idx].status),
				M{"request": gs[b.idx].M, "concurrent": b.body, "sequential": baseline[b.idx].body, "clients": cfg.clients, "gomaxprocs": cfg.procs})
		}
		return
	}
	s.stop() // flushes the race log
	blocks, distinct := raceReports(prefix)
	c.count("race_reports", blocks)
	if blocks > 0 {
		var ex []string
		for _, v := range distinct {
			if len(ex) < 2 {
				ex = append(ex, v)
			}
		}
		c.violate("data-race", fmt.Sprintf("the race detector reported %d data races (%d distinct stack pairs) in the service under %d concurrent clients", blocks, len(distinct), cfg.clients),
			M{"clients": cfg.clients, "gomaxprocs": cfg.procs, "reports": ex})
		return
	}
	c.count("nontrivial", 1)
	c.sample(M{"clients": cfg.clients, "gomaxprocs": cfg.procs, "corpus": N, "concurrent_requests": len(jobs), "overlapping_pairs": pairs, "max_in_flight": maxIn,
		"identical_request_overlaps": ident, "method_pairs_overlapping": len(mp), "race_reports": 0})
}

// in-process variant: decorated registries per decision, seeded yields at every stage boundary
func c10InProc(c *caseCtx) {
	N, G, reps := 120, 16, 6
	if c.tier == "thorough" {
		N, reps = 300, 12
	}
	gs, bodies := c10Corpus(c.rng, N)
	N = len(bodies)
	prefix := filepath.Join(*fWorkDir, "race-harness")
	before, _ := raceReports(fmt.Sprintf("%s.%d", prefix, os.Getpid()))
	var mu sync.Mutex
	var firstBad string
	var badReq M
	var wg sync.WaitGroup
	total := 0
	type rec struct {
		idx int
		d   decision
	}
	var recs []rec
	gate := make(chan struct{})
	for g := 0; g < G; g++ {
		wg.Add(1)
		seed := c.rng.Int63()
		go func(seed int64) {
			defer wg.Done()
			<-gate
			r := rand.New(rand.NewSource(seed))
			for k := 0; k < reps*N/G+1; k++ {
				i := r.Intn(N)
				tr := &trace{yield: func() {
					switch r.Intn(3) {
					case 0:
						runtime.Gosched()
					case 1:
						time.Sleep(time.Duration(r.Intn(200)) * time.Microsecond)
					}
				}}
				dm, err := decodeRequest(bodies[i])
				if err != nil {
					continue
				}
				d := decideDM(dm, tr)
				d.Trace, d.Choice, d.View, d.dm = nil, nil, nil, nil
				mu.Lock()
				total++
				recs = append(recs, rec{i, d})
				mu.Unlock()
			}
		}(seed)
	}
	close(gate) // all goroutines start together on registries nobody has used yet in this (fresh) process
	doneAll := make(chan struct{})
	go func() { wg.Wait(); close(doneAll) }()
	if !awaitBurst(c, doneAll, "inProc") {
		return
	}
	baseline := make([]decision, N)
	for i := range bodies {
		baseline[i] = decide(bodies[i], false)
	}
	for _, rc := range recs {
		if firstBad == "" && (rc.d.OK != baseline[rc.idx].OK || (rc.d.OK && !bytes.Equal(rc.d.JSON, baseline[rc.idx].JSON))) {
			firstBad = fmt.Sprintf("decision computed concurrently differs from the sequential one (accepted %v vs %v)", rc.d.OK, baseline[rc.idx].OK)
			badReq = gs[rc.idx].M
		}
	}
	c.count("evaluations", total+N)
	c.count("inproc_concurrent_decisions", total)
	if firstBad != "" {
		c.violate("differs-from-sequential", firstBad, M{"request": badReq})
		return
	}
	after, distinct := raceReports(fmt.Sprintf("%s.%d", prefix, os.Getpid()))
	if after > before {
		var ex []string
		for _, v := range distinct {
			if len(ex) < 2 {
				ex = append(ex, v)
			}
		}
		c.violate("data-race", fmt.Sprintf("the race detector reported %d data races while %d goroutines decided concurrently on the shared registries", after-before, G), M{"reports": ex})
		return
	}
	c.count("inproc_rounds", 1)
	c.count("nontrivial", 1)
	c.distinct(fmt.Sprintf("inproc|%d|%d", c.idx, total))
}

// cold bursts: a fresh (worker) process, all goroutines released at once on requests of ONE method with diverse
// options - lazily initialised shared state inside a method / listener / bias is hit by simultaneous first uses
func c10ColdBurst(c *caseCtx) {
	method := methods[c.idx%len(methods)]
	G := 24
	var gs []*genReq
	var bodies [][]byte
	var applicable, unknownNames []constraint
	for _, cst := range constraints {
		ok := cst.methods == nil
		for _, m := range cst.methods {
			ok = ok || m == method
		}
		if ok {
			applicable = append(applicable, cst)
			if strings.HasPrefix(cst.name, "unknown") {
				unknownNames = append(unknownNames, cst)
			}
		}
	}
	for i := 0; i < 3*G; i++ {
		o := genOpts{method: method, nBiases: c.rng.Intn(3), minCrit: 2, maxCrit: 4, minAlt: 2, maxAlt: 5}
		if method == "choquetIntegral" {
			o.maxCrit = 3
		}
		g := genRequest(c.rng, o)
		mp := g.M["methodParameters"].(M)
		if method == "majorityHeuristic" && mp["drawResolution"] == "" {
			mp["drawResolution"] = pick(c.rng, drawPolicies[1:])
		}
		if i%4 == 1 && len(applicable) > 0 {
			// every fourth request violates one documented constraint (the catalogue is walked through burst after burst):
			// the error paths of a method meet its first successful uses
			cst := applicable[((c.idx/len(methods))*(3*G/4)+i/4)%len(applicable)]
			g = validBase(method, c.rng)
			cst.apply(g.M)
			g.invalid = true
			c.count("cold_burst_constraint_violations", 1)
			c.distinct("cold-constraint|" + method + "|" + cst.name)
		}
		if i < 2*len(unknownNames) && i < 3*G {
			// the first wave: every "unknown name" rejection of the method TWICE, side by side, in a process that has never
			// formatted that message before (lazily built name lists, first-use caches on the error paths)
			cst := unknownNames[i/2]
			g = validBase(method, c.rng)
			cst.apply(g.M)
			g.invalid = true
			c.count("cold_burst_constraint_violations", 1)
			c.distinct("cold-constraint|" + method + "|" + cst.name)
		} else if i%4 == 3 && len(unknownNames) > 0 {
			// every burst meets every "unknown name" rejection of its method: those paths enumerate the shared registries
			cst := unknownNames[(i/4)%len(unknownNames)]
			g = validBase(method, c.rng)
			cst.apply(g.M)
			g.invalid = true
			c.count("cold_burst_constraint_violations", 1)
			c.distinct("cold-constraint|" + method + "|" + cst.name)
		}
		gs = append(gs, g)
		bodies = append(bodies, g.body())
	}
	prefix := filepath.Join(*fWorkDir, "race-harness")
	before, _ := raceReports(fmt.Sprintf("%s.%d", prefix, os.Getpid()))
	res := make([]decision, len(bodies))
	var wg sync.WaitGroup
	gate := make(chan struct{})
	for g := 0; g < G; g++ {
		wg.Add(1)
		go func(g int) {
			defer wg.Done()
			<-gate
			for k := g; k < len(bodies); k += G {
				d := decide(bodies[k], k%2 == 0)
				d.Trace, d.Choice, d.View, d.dm = nil, nil, nil, nil
				res[k] = d
			}
		}(g)
	}
	close(gate)
	doneAll := make(chan struct{})
	go func() { wg.Wait(); close(doneAll) }()
	if !awaitBurst(c, doneAll, "cold burst of "+method) {
		return
	}
	c.count("evaluations", 2*len(bodies))
	c.count("cold_burst_decisions", len(bodies))
	for k := range bodies {
		b := decide(bodies[k], false)
		if res[k].OK != b.OK || (b.OK && !bytes.Equal(res[k].JSON, b.JSON)) {
			c.violate("differs-from-sequential", fmt.Sprintf("%s decision computed in a cold concurrent burst differs from the sequential one (accepted %v vs %v: %s)", method, res[k].OK, b.OK, res[k].Err), M{"request": gs[k].M})
			return
		}
	}
	after, distinct := raceReports(fmt.Sprintf("%s.%d", prefix, os.Getpid()))
	if after > before {
		var ex []string
		for _, v := range distinct {
			if len(ex) < 2 {
				ex = append(ex, v)
			}
		}
		c.violate("data-race", fmt.Sprintf("the race detector reported %d data races in a cold burst of %d simultaneous %s decisions", after-before, G, method), M{"reports": ex})
		return
	}
	c.count("cold_bursts", 1)
	c.distinct("cold|" + method)
}

// large bursts: a fresh (worker) process, 16 goroutines released together on LARGE requests of one kind - size-triggered
// strategies (worker goroutines, pooled buffers, throttles for expensive validations) only exist above some size
func c10LargeBurst(c *caseCtx) {
	kind := []int{0, 1, 0, 2}[c.idx%4]
	G := 16
	var gs []*genReq
	switch kind {
	case 0:
		// ELECTRE III, 64+ alternatives of three to five replicated kinds (whole groups of indistinguishable alternatives tie
		// at every cut level), small integer performances, q / p / v thresholds
		for i := 0; i < 10*G; i++ {
			n := 64 + c.rng.Intn(20)
			nc := 2 + c.rng.Intn(2)
			nk := 3 + c.rng.Intn(3)
			var crit []interface{}
			ec := M{}
			g := &genReq{method: "electreIII"}
			for j := 0; j < nc; j++ {
				id := fmt.Sprintf("c%d", j)
				crit = append(crit, M{"id": id, "type": "gain"})
				g.crits = append(g.crits, critSpec{id: id})
				q := float64(1 + c.rng.Intn(2))
				ec[id] = M{"k": float64(1 + c.rng.Intn(3)), "q": M{"b": q}, "p": M{"b": q + float64(1+c.rng.Intn(3))}, "v": M{"b": q + float64(4+c.rng.Intn(4))}}
			}
			kinds := make([]M, nk)
			for k := range kinds {
				kinds[k] = M{}
				for j := 0; j < nc; j++ {
					kinds[k][fmt.Sprintf("c%d", j)] = float64(c.rng.Intn(7))
				}
			}
			var alts, chose []interface{}
			for a := 0; a < n; a++ {
				cv := M{}
				for k, v := range kinds[a%nk] {
					cv[k] = v
				}
				id := fmt.Sprintf("a%d_%02d", a%nk, a/nk)
				alts = append(alts, M{"id": id, "criteria": cv})
				chose = append(chose, id)
				g.altIds = append(g.altIds, id)
			}
			mp := M{"electreCriteria": ec}
			if c.rng.Intn(4) == 0 {
				mp["electreDistillation"] = M{"a": -float64(c.rng.Intn(3)) / 16, "b": float64(2+c.rng.Intn(4)) / 16}
			}
			g.M = M{"preferenceFunction": "electreIII", "knownAlternatives": alts, "choseToMake": chose, "criteria": crit, "methodParameters": mp}
			gs = append(gs, g, g) // the same request twice: identical requests in flight together
		}
	case 1:
		// value-based methods with 64..160 alternatives
		for i := 0; i < 2*G; i++ {
			m := []string{"weightedSum", "owa", "choquetIntegral", "majorityHeuristic"}[i%4]
			n := 64 + c.rng.Intn(97)
			g := genRequest(c.rng, genOpts{method: m, minAlt: n, maxAlt: n, minCrit: 2, maxCrit: 4, allCons: 1, nBiases: c.rng.Intn(2), allFire: true})
			if i%8 == 1 || i%8 == 2 || i%8 == 7 {
				// a large request that is refused while it is being evaluated (one alternative far down the list carries a
				// value for a criterion nobody declared, or lacks one): the refusal stays an answer, next to the others
				alts := g.M["knownAlternatives"].([]interface{})
				cv := alts[n/2+c.rng.Intn(n/2)].(M)["criteria"].(M)
				if i%8 != 7 {
					cv["zz_undeclared"] = 1.5 // owa, choquet: one value too many is noticed when that alternative is evaluated
				} else {
					delete(cv, g.crits[len(g.crits)-1].id)
				}
				g.invalid = true
				c.count("large_refused_requests", 1)
			}
			gs = append(gs, g)
		}
	default:
		// Choquet with 13 criteria (8191 capacities): refused ones (a capacity is missing) next to complete ones
		for i := 0; i < G; i++ {
			q := bigChoquet(13, true)
			g := &genReq{M: q, method: "choquetIntegral"}
			if i%3 != 2 {
				delete(mpOf(q)["weights"].(M), fmt.Sprintf("k%d,k7,k11", i%5))
				g.invalid = true
			}
			gs = append(gs, g)
		}
	}
	bodies := make([][]byte, len(gs))
	for i, g := range gs {
		bodies[i] = g.body()
	}
	prefix := filepath.Join(*fWorkDir, "race-harness")
	before, _ := raceReports(fmt.Sprintf("%s.%d", prefix, os.Getpid()))
	res := make([]decision, len(bodies))
	done := make(chan struct{})
	var wg sync.WaitGroup
	gate := make(chan struct{})
	for g := 0; g < G; g++ {
		wg.Add(1)
		go func(g int) {
			defer wg.Done()
			<-gate
			for k := g; k < len(bodies); k += G {
				d := decide(bodies[k], false)
				d.Trace, d.Choice, d.View, d.dm = nil, nil, nil, nil
				res[k] = d
			}
		}(g)
	}
	close(gate)
	go func() { wg.Wait(); close(done) }()
	if !awaitBurst(c, done, fmt.Sprintf("kind %d", kind)) {
		return
	}
	c.count("evaluations", 2*len(bodies))
	c.count("large_burst_decisions", len(bodies))
	for k := range bodies {
		b := decide(bodies[k], false)
		if res[k].OK != b.OK || (b.OK && !bytes.Equal(res[k].JSON, b.JSON)) {
			c.violate("differs-from-sequential", fmt.Sprintf("a large %s decision computed in a concurrent burst differs from the sequential one (accepted %v vs %v: %s)", gs[k].method, res[k].OK, b.OK, res[k].Err), M{"kind": kind, "alternatives": len(gs[k].altIds)})
			return
		}
	}
	after, distinct := raceReports(fmt.Sprintf("%s.%d", prefix, os.Getpid()))
	if after > before {
		var ex []string
		for _, v := range distinct {
			if len(ex) < 2 {
				ex = append(ex, v)
			}
		}
		c.violate("data-race", fmt.Sprintf("the race detector reported %d data races in a burst of %d simultaneous large decisions (kind %d)", after-before, G, kind), M{"reports": ex})
		return
	}
	c.count("large_bursts", 1)
	c.distinct(fmt.Sprintf("large|%d", kind))
}

// awaitBurst waits for a burst of concurrent decisions. Nothing in these workloads takes minutes: when the burst has not
// finished after 150 s the runtime is asked what the deciding goroutines are doing - parked inside the library for minutes
// with nothing of the library running is a verdict (they wait for something that never comes), anything else is inconclusive.
func awaitBurst(c *caseCtx, done <-chan struct{}, what string) bool {
	select {
	case <-done:
		return true
	case <-timeAfterMs(150000):
	}
	buf := make([]byte, 8<<20)
	buf = buf[:runtime.Stack(buf, true)]
	parked, busy := "", false
	re := regexp.MustCompile(`^goroutine \d+ \[([^\],]+)(?:, (\d+) minutes)?`)
	for _, b := range strings.Split(string(buf), "\n\n") {
		m := re.FindStringSubmatch(strings.TrimSpace(b))
		if m == nil || !strings.Contains(b, "RealDecisionMaker/lib/") {
			continue
		}
		switch m[1] {
		case "running", "runnable", "syscall":
			busy = true
		default:
			if m[2] != "" && parked == "" {
				parked = b
				if len(parked) > 1800 {
					parked = parked[:1800]
				}
			}
		}
	}
	if parked != "" && !busy {
		c.violate("blocked", "decisions started together never return: their goroutines are parked inside the library and nothing of it is running", M{"burst": what, "goroutine": parked})
	} else {
		c.inconclusive("a burst (" + what + ") did not finish within the watchdog but its goroutines are still running")
	}
	return false
}

func init() {
	register(&propDef{
		id: "C10",
		rule: "stream server: the real service built with -race, GOMAXPROCS in {1,4,16}, 2..64 concurrent clients; a corpus over all methods x biases (incl. ~10% requests that " +
			"panic with a validation error) is sent 4 times concurrently " +
			"(copies adjacent in even rounds = identical requests in flight together) - the concurrent phase runs FIRST, on the cold process, the baseline is taken " +
			"afterwards from the same process: every response must equal the baseline byte for byte (rejections: status only - their wording is not unique " +
			"even sequentially), the process must stay alive, and the race detector log (halt_on_error=0, log_path) must contain no DATA RACE block. Stream inProc: " +
			"race-instrumented harness, 16 goroutines deciding on the shared registries through decorators that yield / sleep 0-200us at every stage boundary. Stream coldBursts: " +
			"fresh processes in which 24 goroutines are released together on requests of one method (lazy initialisation of shared objects). Evidence " +
			"counts overlapping request pairs (from call/return timestamps), max in flight, identical-request overlaps. distinct = distinct (methodA, methodB) pairs observed overlapping.",
		assumptions: []string{"interleavings are sampled, not enumerated; reported as counts of observed overlaps", "gin 1.4 itself is race-clean (validated: 0 reports on the unchanged tree)"},
		streams: []*stream{
			{name: "server", n: tierN(3, 18), unit: 1, run: c10Server, serial: true,
				floors: map[string]int64{"rounds": 3, "overlapping_pairs": 1500, "identical_request_overlaps": 100, "concurrent_requests": 1800}},
			{name: "coldBursts", n: tierN(28, 280), unit: 1, run: c10ColdBurst, floors: map[string]int64{"cold_bursts": 28},
				note: "each case is a fresh process: 24 goroutines released together on 72 requests of one method (first uses of every shared object race if unsynchronised)"},
			{name: "largeBursts", n: tierN(8, 40), unit: 1, run: c10LargeBurst, floors: map[string]int64{"large_bursts": 8},
				note: "each case is a fresh process: 16 goroutines released together on large requests of one kind - ELECTRE III with 64+ alternatives of four replicated kinds, value-based methods with 64..160 alternatives, Choquet with 13 criteria (refused and complete requests mixed)"},
			{name: "inProc", n: tierN(2, 10), unit: 1, run: c10InProc, floors: map[string]int64{"inproc_rounds": 2, "inproc_concurrent_decisions": 1000}},
		},
	})
}
