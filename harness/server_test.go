package main

// Child-process supervision of the real service binary (http-child mode, DESIGN.md 2.1).

import (
	"bytes"
	"fmt"
	"io/ioutil"
	"net"
	"net/http"
	"os"
	"os/exec"
	"path/filepath"
	"regexp"
	"sort"
	"strconv"
	"strings"
	"sync/atomic"
	"syscall"
	"time"
)

type server struct {
	cmd     *exec.Cmd
	port    int
	url     string
	logPath string
	logFile *os.File
	exited  chan struct{}
	exitErr error
	client  *http.Client
	dead    int32
}

var serverSeq int64

func freePort() int {
	l, err := net.Listen("tcp", "127.0.0.1:0")
	if err != nil {
		return 0
	}
	defer l.Close()
	return l.Addr().(*net.TCPAddr).Port
}

func startServer(extraEnv ...string) (*server, error) {
	if *fServer == "" {
		return nil, fmt.Errorf("no service binary given (-server)")
	}
	for attempt := 0; attempt < 5; attempt++ {
		s := &server{port: freePort(), exited: make(chan struct{})}
		id := atomic.AddInt64(&serverSeq, 1)
		s.logPath = filepath.Join(*fWorkDir, fmt.Sprintf("srv-%d-%d.log", os.Getpid(), id))
		lf, err := os.OpenFile(s.logPath, os.O_CREATE|os.O_WRONLY|os.O_APPEND|os.O_TRUNC, 0644)
		if err != nil {
			return nil, err
		}
		s.logFile = lf
		cmd := exec.Command(*fServer)
		cmd.Dir = *fWorkDir
		cmd.Env = append(os.Environ(), fmt.Sprintf("PORT=%d", s.port), "GIN_MODE=release")
		cmd.Env = append(cmd.Env, extraEnv...)
		cmd.Stdout, cmd.Stderr = lf, lf
		cmd.SysProcAttr = &syscall.SysProcAttr{Setpgid: true, Pdeathsig: syscall.SIGKILL}
		if err := cmd.Start(); err != nil {
			lf.Close()
			return nil, err
		}
		s.cmd = cmd
		s.url = fmt.Sprintf("http://127.0.0.1:%d", s.port)
		s.client = &http.Client{Timeout: 150 * time.Second, Transport: &http.Transport{MaxIdleConnsPerHost: 128, MaxConnsPerHost: 0}}
		go func() {
			s.exitErr = cmd.Wait()
			atomic.StoreInt32(&s.dead, 1)
			close(s.exited)
		}()
		ok := false
		for i := 0; i < 400; i++ {
			if !s.alive() {
				break
			}
			r, err := s.client.Get(s.url + "/api/preferenceFunctions")
			if err == nil {
				ioutil.ReadAll(r.Body)
				r.Body.Close()
				ok = true
				break
			}
			time.Sleep(25 * time.Millisecond)
		}
		if ok {
			return s, nil
		}
		s.stop()
	}
	return nil, fmt.Errorf("service did not start")
}

func (s *server) alive() bool { return atomic.LoadInt32(&s.dead) == 0 }

func (s *server) stop() {
	if s.cmd != nil && s.cmd.Process != nil && s.alive() {
		syscall.Kill(-s.cmd.Process.Pid, syscall.SIGKILL)
		select {
		case <-s.exited:
		case <-time.After(5 * time.Second):
		}
	}
	if s.logFile != nil {
		s.logFile.Close()
	}
	if s.client != nil {
		s.client.CloseIdleConnections()
	}
	os.Remove(s.logPath)
}

// truncateLog empties the child's output file while it is alive (the handler logs every request)
func (s *server) truncateLog() { os.Truncate(s.logPath, 0) }

func (s *server) logTail(n int) string {
	b, err := ioutil.ReadFile(s.logPath)
	if err != nil {
		return ""
	}
	if i := bytes.Index(b, []byte("fatal error")); i >= 0 {
		e := i + n
		if e > len(b) {
			e = len(b)
		}
		return string(b[i:e])
	}
	if len(b) > n {
		b = b[len(b)-n:]
	}
	return string(b)
}

// cpuSeconds: user+system CPU time of the child from /proc
func (s *server) cpuSeconds() float64 {
	b, err := ioutil.ReadFile(fmt.Sprintf("/proc/%d/stat", s.cmd.Process.Pid))
	if err != nil {
		return 0
	}
	str := string(b)
	i := strings.LastIndex(str, ")")
	if i < 0 {
		return 0
	}
	f := strings.Fields(str[i+1:])
	if len(f) < 13 {
		return 0
	}
	ut, _ := strconv.ParseFloat(f[11], 64)
	stt, _ := strconv.ParseFloat(f[12], 64)
	return (ut + stt) / 100
}

type httpResult struct {
	status   int
	body     []byte
	err      error
	call     int64 // ns since harness start
	ret      int64
	clientId int
}

var harnessStart = time.Now()

func (s *server) post(body []byte) httpResult {
	var r httpResult
	r.call = time.Since(harnessStart).Nanoseconds()
	resp, err := s.client.Post(s.url+"/api/decide", "application/json", bytes.NewReader(body))
	if err != nil {
		r.err = err
		r.ret = time.Since(harnessStart).Nanoseconds()
		return r
	}
	r.status = resp.StatusCode
	r.body, r.err = ioutil.ReadAll(resp.Body)
	resp.Body.Close()
	r.ret = time.Since(harnessStart).Nanoseconds()
	return r
}

func (s *server) get(path string) (int, []byte, error) {
	resp, err := s.client.Get(s.url + path)
	if err != nil {
		return 0, nil, err
	}
	defer resp.Body.Close()
	b, err := ioutil.ReadAll(resp.Body)
	return resp.StatusCode, b, err
}

// rawSend writes arbitrary bytes to the service port and returns what came back (client-fault workloads)
func (s *server) rawSend(payload []byte, halfClose bool, wait time.Duration) ([]byte, error) {
	conn, err := net.DialTimeout("tcp", fmt.Sprintf("127.0.0.1:%d", s.port), 5*time.Second)
	if err != nil {
		return nil, err
	}
	defer conn.Close()
	conn.SetDeadline(time.Now().Add(wait))
	conn.Write(payload)
	if halfClose {
		if tc, ok := conn.(*net.TCPConn); ok {
			tc.CloseWrite()
		}
	}
	b, _ := ioutil.ReadAll(conn)
	return b, nil
}

// normaliseError sorts the items of every bracketed list: lists of available names are printed in map order
var reBracket = regexp.MustCompile(`\[[^\[\]]*\]`)

func normaliseError(b []byte) string {
	return reBracket.ReplaceAllStringFunc(string(b), func(m string) string {
		items := strings.Fields(m[1 : len(m)-1])
		sort.Strings(items)
		return "[" + strings.Join(items, " ") + "]"
	})
}

func timeAfterMs(ms int) <-chan time.Time { return time.After(time.Duration(ms) * time.Millisecond) }

// handlerBlocked sends SIGQUIT to the child (which makes the Go runtime print every goroutine and exit) and reads the dump:
// true when a goroutine inside decideHandler has been parked for at least a minute (chan send / chan receive / select /
// semacquire / sync.* wait) while no goroutine executing the service's or the library's code is running or runnable.
// The verdict rests on the runtime's own account of the goroutine states, not on the harness's clock.
func (s *server) handlerBlocked() (bool, string) {
	s.truncateLog()
	s.cmd.Process.Signal(syscall.SIGQUIT)
	select {
	case <-s.exited:
	case <-timeAfterMs(15000):
	}
	dump := s.logTail(4 << 20)
	blocks := strings.Split(dump, "\n\n")
	parked, busy := "", false
	re := regexp.MustCompile(`^goroutine \d+ (?:gp=\S+ m=\S+ (?:mp=\S+ )?)?\[([^\],]+)(?:, (\d+) minutes)?`)
	for _, b := range blocks {
		m := re.FindStringSubmatch(strings.TrimSpace(b))
		if m == nil {
			continue
		}
		ours := strings.Contains(b, "main.decideHandler") || strings.Contains(b, "RealDecisionMaker/lib/")
		if !ours {
			continue
		}
		switch m[1] {
		case "running", "runnable", "syscall":
			busy = true
		default:
			if m[2] != "" && strings.Contains(b, "main.decideHandler") && parked == "" {
				if len(b) > 1800 {
					b = b[:1800]
				}
				parked = b
			}
		}
	}
	return parked != "" && !busy, parked
}
