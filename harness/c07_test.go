package main

// Drivers for the trace-based properties: C07 (composition / coherence), C15..C19 (per-bias oracles).

import (
	"encoding/json"
	"fmt"
	"reflect"
	"regexp"
	"strings"
)

// report turns the issues of the wanted property into violations and merges the event counters
func reportIssues(c *caseCtx, g *genReq, d decision, prop string, is []issue, st *eventStats) bool {
	for k, v := range st.counts {
		c.count(k, v)
	}
	bad := false
	for _, i := range is {
		if i.prop != prop {
			c.count("other_property_issue:"+i.prop, 1)
			continue
		}
		bad = true
		c.violate(i.sig, i.msg, M{"request": g.M})
	}
	return bad
}

func firedNames(tr *trace) string {
	var n []string
	for _, e := range tr.Bias {
		n = append(n, e.Name)
	}
	return strings.Join(n, ">")
}

func optionTag(g *genReq) string {
	bs, _ := g.M["biases"].([]interface{})
	var sb strings.Builder
	for _, b := range bs {
		p, _ := b.(M)["props"].(M)
		fmt.Fprintf(&sb, "%s/%s/%s/%v/%v;", strOr(p, "ordering", ""), refTypeOf(p, ""), strOr(subM(p, "applier"), "function", strOr(p, "function", "")),
			p["allowedValuesRangeScaling"], p["disallowNegativeValues"])
	}
	return sb.String()
}

var biasSeqs = func() [][]string {
	seqs := [][]string{{}}
	for _, a := range biasNames {
		seqs = append(seqs, []string{a})
	}
	for _, a := range biasNames {
		for _, b := range biasNames {
			seqs = append(seqs, []string{a, b})
		}
	}
	return seqs
}()

func c07Run(c *caseCtx, g *genReq) {
	d := decide(g.body(), true)
	c.count("evaluations", 1)
	if !d.OK {
		// an in-domain request (by construction of the generator) must be answered
		c.count("rejected", 1)
		c.violate("rejected:"+errClass(d.Err), "the combination is answered with an error instead of a ranking: "+d.Err, M{"request": g.M})
		return
	}
	if msg := wellFormed(g.M, d.View); msg != "" {
		c.count("other_property_issue:C01", 1)
	}
	st := &eventStats{}
	is := checkTrace(g.method, d.Trace, st)
	reportIssues(c, g, d, "C07", is, st)
	if len(d.Trace.Bias) > 0 {
		c.count("nontrivial", 1)
		c.distinct(g.method + "|" + firedNames(d.Trace) + "|" + optionTag(g))
	}
	if len(d.Trace.Bias) >= 2 {
		c.count("two_or_more_fired", 1)
	}
	if c.idx%2503 == 0 {
		c.sample(M{"request": g.M, "fired": firedNames(d.Trace), "result_ids": len(d.View.Result)})
	}
}

func c07Pairs(c *caseCtx) {
	combo := c.idx % (len(methods) * len(biasSeqs))
	method := methods[combo%len(methods)]
	seq := biasSeqs[combo/len(methods)]
	o := genOpts{method: method, biasSeq: append([]string{}, seq...), minCrit: 1, maxCrit: 4, minAlt: 1, maxAlt: 5, allCons: c.rng.Intn(3), allFire: c.rng.Intn(3) != 0, negValues: c.rng.Intn(4) == 0}
	if len(seq) == 0 {
		o.biasSeq = []string{}
	}
	c07Run(c, withUndeclaredValues(c, genRequest(c.rng, o)))
}

// withUndeclaredValues: one request in ten (not for OWA / Choquet, which refuse them) carries values for criteria nobody
// declared - input the service accepts and ignores without biases, so no combination with biases may fail on it
func withUndeclaredValues(c *caseCtx, g *genReq) *genReq {
	if g.method == "owa" || g.method == "choquetIntegral" || c.rng.Intn(10) != 0 {
		return g
	}
	for _, a := range g.M["knownAlternatives"].([]interface{}) {
		cv := a.(M)["criteria"].(M)
		if c.rng.Intn(3) != 0 {
			cv["aa_undeclared"] = quarter(c.rng, 0, 400)
		}
		if c.rng.Intn(2) == 0 {
			cv["zz_undeclared"] = quarter(c.rng, 0, 400)
		}
	}
	c.count("with_undeclared_values", 1)
	return g
}

func c07Long(c *caseCtx) {
	method := methods[c.idx%len(methods)]
	o := genOpts{method: method, nBiases: 3 + c.rng.Intn(2), minCrit: 1, maxCrit: 4, minAlt: 1, maxAlt: 5, allCons: c.rng.Intn(3), allFire: c.rng.Intn(2) == 0}
	if c.rng.Intn(3) == 0 {
		o.maxCrit = 6
	}
	c07Run(c, withUndeclaredValues(c, genRequest(c.rng, o)))
}

// --- per-bias drivers -----------------------------------------------------------------------------

func biasDriver(prop, focus string, nb func(c *caseCtx) int, tweak func(c *caseCtx, g *genReq)) func(c *caseCtx) {
	return func(c *caseCtx) {
		method := methods[c.idx%len(methods)]
		n := nb(c)
		seq := make([]string, n)
		pos := c.rng.Intn(n)
		for i := range seq {
			if i == pos {
				seq[i] = focus
			} else {
				seq[i] = pick(c.rng, biasNames)
			}
		}
		o := genOpts{method: method, biasSeq: seq, minCrit: 1, maxCrit: 6, minAlt: 1, maxAlt: 5, allCons: c.rng.Intn(3), allFire: true, negValues: c.rng.Intn(3) == 0,
			extraWeight: prop == "C15"}
		if method == "choquetIntegral" {
			o.maxCrit = 5
		}
		if (prop == "C15" || prop == "C16") && method != "choquetIntegral" && c.rng.Intn(6) == 0 {
			// 7..12 criteria: with ratios j/n and decimal ratios the product n x ratio meets its integer from both sides
			o.minCrit, o.maxCrit = 7, 12
		}
		if (prop == "C15" || prop == "C16") && c.rng.Intn(8) == 0 {
			// importances that are distinct but closer than any "reasonable" epsilon, in no particular order
			o.nearTiedW, o.minCrit = true, 3
		}
		g := genRequest(c.rng, o)
		if tweak != nil {
			tweak(c, g)
		}
		if method != "owa" && method != "choquetIntegral" && c.rng.Intn(10) == 0 {
			// alternatives may carry values for criteria nobody declared (input only): they take no part in anything
			for _, a := range g.M["knownAlternatives"].([]interface{}) {
				cv := a.(M)["criteria"].(M)
				if c.rng.Intn(3) != 0 {
					cv["aa_undeclared"] = quarter(c.rng, 0, 400)
				}
				if c.rng.Intn(2) == 0 {
					cv["zz_undeclared"] = quarter(c.rng, 0, 400)
				}
			}
			c.count("with_undeclared_values", 1)
		}
		if method == "weightedSum" && (prop == "C15" || prop == "C16") && c.rng.Intn(6) == 0 {
			// weights may be negative (also in total): the importance is still weight x summed considered values
			w := g.M["methodParameters"].(M)["weights"].(M)
			for k, v := range w {
				if f, ok := v.(float64); ok && c.rng.Intn(3) != 0 {
					w[k] = -f
				}
			}
			c.count("negative_weights", 1)
		}
		body := g.body()
		if c.rng.Intn(10) == 0 {
			// whole numbers written the way clients holding them as doubles write them: 2.0, 2e0
			body = floatifyIntegers(body, c.rng.Intn(2) == 0)
			c.count("integers_written_as_floats", 1)
		}
		d := decide(body, true)
		c.count("evaluations", 1)
		if !d.OK {
			c.count("rejected", 1)
			c.count("rejected:"+errClass(d.Err), 1)
			// the request is in-domain by construction: if it dies while the bias under test is being applied, that bias
			// did not do what the property says it does (failures elsewhere belong to other properties)
			if d.Trace == nil {
				return
			}
			if cur := d.Trace.cur; cur != nil && cur.Name == focus {
				c.violate("bias-failed:"+errClass(d.Err), fmt.Sprintf("bias #%d %s fails on an in-domain request instead of transforming the data: %s", cur.Pos, cur.Name, d.Err), M{"request": g.M})
			}
			if strings.HasPrefix(d.Err, "marshal:") || strings.Contains(d.Err, "unsupported value") {
				// everything ran, but the outcome cannot be written as JSON (NaN / Inf): the trace is complete, so the bias
				// under test is still judged on what it handed on
				st := &eventStats{}
				reportIssues(c, g, d, prop, checkTrace(g.method, d.Trace, st), st)
			}
			return
		}
		st := &eventStats{}
		if len(d.Trace.Bias) > 0 {
			// the importance of the request's criteria is defined with the weights the request configures
			mp := g.M["methodParameters"].(M)
			rw := map[string]float64{}
			if w, ok := mp["weights"].(M); ok && g.method != "choquetIntegral" && g.method != "owa" {
				for k, v := range w {
					if f, isNum := v.(float64); isNum {
						rw[k] = f
					}
				}
			}
			if ec, ok := mp["electreCriteria"].(M); ok {
				for k, v := range ec {
					rw[k] = numOr(v.(M), "k", 0)
				}
			}
			if len(rw) > 0 {
				d.Trace.Bias[0].In.ReqW = rw
			}
		}
		is := checkTrace(g.method, d.Trace, st)
		if msg := checkReceived(d); msg != "" {
			is = append(is, issue{prop, "request-not-as-sent", "the bias works on other data than the request carries: " + msg})
		} else {
			st.add("request_received_as_sent", 1)
		}
		// the criteria the request declares reach the bias under test as declared (type, declared range): no earlier
		// stage may have rewritten them
		declared := map[string]critSpec{}
		for _, cs := range g.crits {
			declared[cs.id] = cs
		}
	declaredLoop:
		for _, e := range d.Trace.Bias {
			if e.Name != focus {
				continue
			}
			for _, cr := range e.In.Crit {
				if cs, ok := declared[cr.Id]; ok && (cs.cost != cr.Cost || cs.hasRng != cr.HasRng || (cs.hasRng && (cs.lo != cr.Lo || cs.hi != cr.Hi))) {
					is = append(is, issue{prop, "declared-criterion-not-in-force", fmt.Sprintf("bias #%d %s receives criterion '%s' as %+v, the request declares cost=%v range=%v [%v,%v]", e.Pos, e.Name, cr.Id, cr, cs.cost, cs.hasRng, cs.lo, cs.hi)})
					break declaredLoop
				}
			}
			st.add("declared_criteria_in_force", 1)
		}
		// what the response finally shows as a bias's report is the report the bias returned (no later stage rewrote it)
		if len(d.View.Biases) == len(d.Trace.Bias) {
			for i, e := range d.Trace.Bias {
				if e.Name != focus || e.ReportJSON == nil {
					continue
				}
				final, _ := json.Marshal(d.View.Biases[i].Props)
				var a, b interface{}
				json.Unmarshal(final, &a)
				json.Unmarshal(e.ReportJSON, &b)
				if !reflect.DeepEqual(a, b) {
					is = append(is, issue{prop, "report-differs-in-response", fmt.Sprintf("bias #%d %s: the report shown in the response differs from what the bias reported when it handed its data on", i, e.Name)})
				} else {
					st.add("final_report_checked", 1)
				}
			}
		}
		reportIssues(c, g, d, prop, is, st)
		for _, e := range d.Trace.Bias {
			if e.Name == focus {
				c.count("nontrivial", 1)
				c.distinct(fmt.Sprintf("%s|%s|%d|%d|%s", g.method, firedNames(d.Trace), e.Pos, len(e.In.Crit), optionTag(g)))
			}
		}
		if c.idx%2503 == 0 {
			for _, e := range d.Trace.Bias {
				if e.Name == focus {
					c.sample(M{"request": g.M, "event": e})
					break
				}
			}
		}
	}
}

var reIntProp = regexp.MustCompile(`"(min|max|randomSeed|newCriterionRandomSeed|queryNumber)":(-?[0-9]{1,15})([,}])`)

// floatifyIntegers rewrites integer-valued properties of a request body as 2.0 (or 2e0): the same numbers, another spelling
func floatifyIntegers(body []byte, exp bool) []byte {
	suffix := ".0"
	if exp {
		suffix = "e0"
	}
	return reIntProp.ReplaceAll(body, []byte(`"$1":${2}`+suffix+`$3`))
}

func oneToThree(c *caseCtx) int { return 1 + c.rng.Intn(3) }

// c19Tweak: every tenth request measures one criterion in tiny units (all its values and its declared range x 1e-12):
// a range of 1e-11 is small, not empty
func c19Tweak(c *caseCtx, g *genReq) {
	if c.rng.Intn(10) != 0 || len(g.crits) == 0 {
		return
	}
	id := g.crits[c.rng.Intn(len(g.crits))].id
	for _, a := range g.M["knownAlternatives"].([]interface{}) {
		cv := a.(M)["criteria"].(M)
		if v, ok := cv[id].(float64); ok {
			cv[id] = v * 1e-12
		}
	}
	for i, cr := range g.M["criteria"].([]interface{}) {
		if cr.(M)["id"] == id {
			if vr, ok := cr.(M)["valuesRange"].(M); ok {
				vr["min"], vr["max"] = numOr(vr, "min", 0)*1e-12, numOr(vr, "max", 0)*1e-12
				g.crits[i].lo, g.crits[i].hi = numOr(vr, "min", 0), numOr(vr, "max", 0)
			}
		}
	}
	c.count("tiny_unit_criteria", 1)
}

func init() {
	register(&propDef{
		id: "C07",
		rule: "stream pairs: every (method, bias sequence of length 0..2) combination - 7 x 43, enumerated cyclically - with generated options (orderings, reference strategies, " +
			"appliers, bounding, considered = known / smaller); stream long: sampled sequences of length 3..4. Requests are in-domain by construction (a sound lower bound of " +
			"the criteria count keeps every omission from removing all criteria). Oracle: the request is answered; after every fired bias (decorator snapshots) the " +
			"alternatives / split are unchanged, criteria change only as reported, every alternative has a value for every criterion, the parameters cover every criterion, " +
			"values the bias does not rewrite are bit-identical, and each stage receives exactly what the previous one handed on. Non-trivial = >=1 bias fired; distinct = " +
			"(method, fired bias names, option tuple).",
		assumptions: []string{"unexported parameter structs are read through reflect+unsafe (layout change => counted, not judged)"},
		streams: []*stream{
			{name: "pairs", n: tierN(45150, 1204000), unit: 6020, run: c07Pairs, floors: map[string]int64{"coherent_events": 30000, "two_or_more_fired": 8000},
				note: "all 7 x 43 (method, bias sequence <=2) combinations, each repeated with fresh options"},
			{name: "long-service", n: tierN(3000, 60000), unit: 1500, run: c07Long, service: true,
				note: "the same generator and oracle as the stream named in front of the dash, but every request goes through decideHandler of main.go in-process (gin binding, the handler's own request object) after a history of 1..3 unrelated requests (accepted and rejected)"},
			{name: "long", n: tierN(14000, 300000), unit: 3500, run: c07Long, floors: map[string]int64{"bias_events": 60000}},
			{name: "emptyLevels", n: tierN(3400, 60000), unit: 1700, run: c07EmptyLevels, floors: map[string]int64{"empty_levels_requests": 3000},
				note: "satisfaction / aspect elimination with function thresholds and no level at all (empty list, empty params, params left out) x every bias sequence of length 1..2"},
		},
	})
	register(&propDef{
		id: "C15",
		rule: "all 7 methods x bias sequences of length 1..3 containing criteriaOmission (all orderings, ratios, min/max, superfluous weights where accepted); per omission event: " +
			"count rule floor(n x ratio) clamped, omitted reported / distinct / declared / gone, alternatives and parameters restricted, weakest/strongest consistent with the " +
			"monitor's own importance measure; stream reduced: single omission vs the request with those criteria deleted (same ranking); stream frequency: by-probability " +
			"orderings over 4000 seeds (importances 1:2:4:8 and 0:1:2:4). Non-trivial = an omission event; distinct = (method, fired sequence, position, #criteria, options).",
		assumptions: []string{"n x ratio within 1e-9 of an integer with a non-dyadic ratio is fragile (skipped)", "Choquet importance is skipped when a value gap is within 1% of the 1e-5 grouping distance"},
		streams: []*stream{
			{name: "events-service", n: tierN(5000, 80000), unit: 2500, run: biasDriver("C15", "criteriaOmission", oneToThree, nil), service: true,
				note: "the same generator and oracle as the stream named in front of the dash, but every request goes through decideHandler of main.go in-process (gin binding, the handler's own request object) after a history of 1..3 unrelated requests (accepted and rejected)"},
			{name: "events", n: tierN(28000, 500000), unit: 3500, run: biasDriver("C15", "criteriaOmission", oneToThree, nil),
				floors: map[string]int64{"omission_events": 15000, "omission_nonempty": 4000, "importance_checked": 1000}},
			{name: "reduced", n: tierN(14000, 300000), unit: 3500, run: c15Reduced, floors: map[string]int64{"reduced_compared": 5000}},
			{name: "frequency", n: tierN(24, 96), unit: 1, run: c15Frequency, floors: map[string]int64{"frequency_batteries": 24}},
			{name: "frequencyLarge", n: tierN(10, 48), unit: 1, run: c15FrequencyLarge, floors: map[string]int64{"large_frequency_batteries": 10},
				note: "the probability orderings with 13..24 criteria (majority, weights 1..n, half omitted, 1500 seeds each): the least important criteria are omitted more / less often than the most important ones"},
		},
	})
	register(&propDef{
		id: "C16",
		rule: "all 7 methods x bias sequences of length 1..3 containing preferenceReversal (all orderings / ratios / min-max, with and without declared ranges, considered = known " +
			"and smaller, after other biases); per event: count rule, v -> max+min-v for every known alternative on the selected criteria, report = criteria / ranges / values, " +
			"everything else identical, range preserved; stream involution: two full reversals restore the data. Non-trivial = a reversal event; distinct as C15.",
		assumptions: []string{"tolerance 1e-9 x range on real-valued data, exact on dyadic data"},
		streams: []*stream{
			{name: "events-service", n: tierN(5000, 80000), unit: 2500, run: biasDriver("C16", "preferenceReversal", oneToThree, nil), service: true,
				note: "the same generator and oracle as the stream named in front of the dash, but every request goes through decideHandler of main.go in-process (gin binding, the handler's own request object) after a history of 1..3 unrelated requests (accepted and rejected)"},
			{name: "events", n: tierN(28000, 500000), unit: 3500, run: biasDriver("C16", "preferenceReversal", oneToThree, nil),
				floors: map[string]int64{"reversal_events": 15000, "reversal_nonempty": 5000, "reversal_with_notconsidered": 1500}},
			{name: "frequencyTwo", n: tierN(6, 24), unit: 1, run: c16FrequencyTwo, floors: map[string]int64{"two_criteria_frequency_batteries": 6},
				note: "probability orderings with two criteria (importance 1 and 2): which one a reversal with ratio 0.5 selects, over 1500 seeds"},
			{name: "involution", n: tierN(7000, 100000), unit: 3500, run: c16Involution, floors: map[string]int64{"involutions_checked": 5000}},
		},
	})
	register(&propDef{
		id: "C17",
		rule: "all 7 methods x bias sequences of length 1..3 containing fatigue (const / expFromZero, seeds, bounding off / scaled / non-negative, values of any sign); per event: " +
			"ratio recomputed, |v'-v| <= |f v| (or the bounded band), f=0 identity, criteria / parameters untouched, report = values handed on; stream directions: 40-value " +
			"decisions must move values both up and down. Non-trivial = a fatigue event; distinct as C15.",
		assumptions: []string{"a 40-value decision moving all values one way has probability 2^-39 on correct code"},
		streams: []*stream{
			{name: "events-service", n: tierN(5000, 80000), unit: 2500, run: biasDriver("C17", "fatigue", oneToThree, nil), service: true,
				note: "the same generator and oracle as the stream named in front of the dash, but every request goes through decideHandler of main.go in-process (gin binding, the handler's own request object) after a history of 1..3 unrelated requests (accepted and rejected)"},
			{name: "events", n: tierN(28000, 500000), unit: 3500, run: biasDriver("C17", "fatigue", oneToThree, nil),
				floors: map[string]int64{"fatigue_events": 15000, "fatigue_bounded_events": 4000, "fatigue_zero_ratio": 500, "fatigue_moved_up": 200, "fatigue_moved_down": 200}},
			{name: "directions", n: tierN(3000, 30000), unit: 1500, run: c17Directions, floors: map[string]int64{"direction_cases": 2000}},
		},
	})
	register(&propDef{
		id: "C18",
		rule: "all 7 methods x bias sequences of length 1..3 containing criteriaConcealment or criteriaMixing (3 reference strategies, scaling in {0.5,1,1.5,2,-1,-1.5}, mixing " +
			"ratios, bounding, 1..6 criteria, repetition incl. add-omit-add); per event: one new gain criterion with an unused id appended, values for everybody, existing " +
			"values untouched, parameters extended (weight = seeded fraction in [0,1) of the reference weight, full Choquet power set in [0,1], thresholds per level), " +
			"reference criterion existing and - for importanceRatio - exactly the recomputed one, concealed values inside the scaled reference range, mixed value = " +
			"r c1' + (1-r) c2' of two distinct rescaled components; stream frequency: random reference strategies over 4000 seeds. Non-trivial = such an event; distinct as C15.",
		assumptions: []string{"the reference range of a concealed criterion may be measured on the original or on the current state (the statement does not say); both are accepted",
			"cumulated importance within 1e-9 of the importanceRatio boundary is fragile (skipped)"},
		streams: []*stream{
			{name: "concealment-service", n: tierN(3000, 50000), unit: 1500, run: biasDriver("C18", "criteriaConcealment", oneToThree, nil), service: true,
				note: "the same generator and oracle as the stream named in front of the dash, but every request goes through decideHandler of main.go in-process (gin binding, the handler's own request object) after a history of 1..3 unrelated requests (accepted and rejected)"},
			{name: "mixing-service", n: tierN(3000, 50000), unit: 1500, run: biasDriver("C18", "criteriaMixing", oneToThree, nil), service: true,
				note: "the same generator and oracle as the stream named in front of the dash, but every request goes through decideHandler of main.go in-process (gin binding, the handler's own request object) after a history of 1..3 unrelated requests (accepted and rejected)"},
			{name: "concealment", n: tierN(21000, 400000), unit: 3500, run: biasDriver("C18", "criteriaConcealment", oneToThree, nil),
				floors: map[string]int64{"concealment_events": 12000, "reference_exact_checked": 3000, "weight_fraction_checked": 8000, "choquet_extension_checked": 1500}},
			{name: "mixing", n: tierN(21000, 400000), unit: 3500, run: biasDriver("C18", "criteriaMixing", oneToThree, nil),
				floors: map[string]int64{"mixing_events": 9000, "mixing_noop_events": 500, "mixing_with_cost": 1000}},
			{name: "frequency", n: tierN(4, 24), unit: 1, run: c18Frequency, floors: map[string]int64{"frequency_batteries": 4}},
			{name: "negativeWeights", n: tierN(7000, 120000), unit: 3500, run: c18NegDriver, floors: map[string]int64{"negative_weights": 2500},
				note: "the concealment / mixing drivers with weights of either sign for weighted sum, majority and aspect elimination: the added weight is a fraction in [0,1) of a negative reference weight too"},
		},
	})
	register(&propDef{
		id: "C19",
		rule: "all 7 methods x bias sequences of length 1..3 containing anchoring (1..3 anchoring alternatives with positive coefficients, ideal / nadir, linear / expFromZero / " +
			"zero gain and loss, inline and newCriterion appliers, bounding, gain / cost, degenerate ranges); per event: reference point (coefficient rule), scale, mapped " +
			"differences, inline value = B(v + range x mapped) for considered (others only if asked), applied differences = new - old, zero functions identity; newCriterion: " +
			"one criterion, type of the reference criterion, value within mid +- half x [min,max mapped difference], parameters extended. Non-trivial = an anchoring event; distinct as C15.",
		assumptions: []string{"for the newCriterion applier only the convex-combination necessary condition on the value is judged (the normalised importance weights are not re-derived)"},
		streams: []*stream{
			{name: "events-service", n: tierN(5000, 80000), unit: 2500, run: biasDriver("C19", "anchoring", oneToThree, c19Tweak), service: true,
				note: "the same generator and oracle as the stream named in front of the dash, but every request goes through decideHandler of main.go in-process (gin binding, the handler's own request object) after a history of 1..3 unrelated requests (accepted and rejected)"},
			{name: "events", n: tierN(35000, 500000), unit: 3500, run: biasDriver("C19", "anchoring", oneToThree, c19Tweak),
				floors: map[string]int64{"anchoring_events": 15000, "anchoring_inline_events": 6000, "anchoring_newcriterion_events": 6000, "anchoring_zero_functions": 300}},
		},
	})
}
