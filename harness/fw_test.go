package main

// Framework of the runtime-monitoring harness: supervisor / worker processes, deterministic case
// streams, evidence, replay files, known-findings discipline. See /verif/DESIGN.md section 2.

import (
	"encoding/binary"
	"encoding/json"
	"flag"
	"fmt"
	"hash/fnv"
	"io/ioutil"
	"log"
	"math/rand"
	"os"
	"os/exec"
	"path/filepath"
	"runtime/debug"
	"sort"
	"strings"
	"sync"
	"sync/atomic"
	"syscall"
	"testing"
	"time"

	"github.com/gin-gonic/gin"
)

var (
	fProp      = flag.String("prop", "", "property id")
	fTier      = flag.String("tier", "quick", "quick|thorough")
	fSeed      = flag.Int64("seed", 1, "master seed (VERIF_SEED)")
	fEvidence  = flag.String("evidence", "", "evidence file to write")
	fFindings  = flag.String("findings", "", "known findings file")
	fReplayDir = flag.String("replaydir", "", "where replay files go")
	fReplay    = flag.String("replay", "", "replay file to re-execute")
	fWorkDir   = flag.String("workdir", "", "scratch dir")
	fServer    = flag.String("server", "", "path of the real service binary")
	fJobs      = flag.Int("jobs", 16, "parallel workers")
	fWorker    = flag.Bool("worker", false, "internal: run as worker")
	fStream    = flag.String("stream", "", "internal: stream name")
	fLo        = flag.Int("lo", 0, "internal")
	fHi        = flag.Int("hi", 0, "internal")
	fOut       = flag.String("out", "", "internal: worker result file")
	fProgress  = flag.String("progress", "", "internal: worker progress file")
	fScale     = flag.Float64("scale", 1, "multiply case counts (experiments)")
)

// ---------------------------------------------------------------------------------------------
// streams

type stream struct {
	name       string
	n          func(tier string) int // number of cases (deterministic, never a time budget)
	unit       int                   // cases per worker process
	run        func(c *caseCtx)
	exhaustive bool             // the stream enumerates a finite space completely
	floors     map[string]int64 // counters that must reach this minimum (per run), else inconclusive
	service    bool             // cases run through the service's own handler (decideHandler of main.go, in-process) after a short history of other requests
	watchdog   time.Duration    // generous wall-clock limit per unit; expiry alone is never a violation
	serial     bool             // run the units of this stream one at a time (they spawn their own processes)
	note       string
}

type propDef struct {
	id          string
	rule        string // how cases are generated, what makes one distinct / non-trivial
	assumptions []string
	streams     []*stream
}

var props = map[string]*propDef{}

func register(p *propDef) { props[p.id] = p }

func tierN(quick, thorough int) func(string) int {
	return func(t string) int {
		n := quick
		if t == "thorough" {
			// measured on 16 cores: the nominal thorough counts take 0.5-2 minutes per property; the thorough tier
			// runs four times as many cases (3-9 minutes per property)
			n = thorough * 4
		}
		n = int(float64(n) * *fScale)
		if n < 1 {
			n = 1
		}
		return n
	}
}

// ---------------------------------------------------------------------------------------------
// per-case context and worker result

type violation struct {
	Stream string          `json:"stream"`
	Idx    int             `json:"idx"`
	Sig    string          `json:"signature"`
	Msg    string          `json:"message"`
	Detail json.RawMessage `json:"detail,omitempty"`
}

type workerResult struct {
	Counters     map[string]int64  `json:"counters"`
	Distinct     []uint64          `json:"distinct"`
	Violations   []violation       `json:"violations"`
	Samples      []json.RawMessage `json:"samples"`
	Inconclusive []string          `json:"inconclusive"`
	distinctSet  map[uint64]struct{}
	Done         bool `json:"done"`
}

func newWorkerResult() *workerResult {
	return &workerResult{Counters: map[string]int64{}, distinctSet: map[uint64]struct{}{}}
}

type caseCtx struct {
	prop   string
	stream string
	idx    int
	seed   int64
	tier   string
	rng    *rand.Rand
	res    *workerResult
	nviol  int
}

func splitmix(x uint64) uint64 {
	x += 0x9e3779b97f4a7c15
	z := x
	z = (z ^ (z >> 30)) * 0xbf58476d1ce4e5b9
	z = (z ^ (z >> 27)) * 0x94d049bb133111eb
	return z ^ (z >> 31)
}

func caseSeed(seed int64, streamName string, idx int) int64 {
	h := fnv.New64a()
	h.Write([]byte(streamName))
	x := splitmix(uint64(seed) ^ splitmix(h.Sum64()))
	x = splitmix(x ^ uint64(idx)*0x632be59bd9b4e019)
	return int64(x >> 1)
}

func hash64(s string) uint64 {
	h := fnv.New64a()
	h.Write([]byte(s))
	return h.Sum64()
}

func (c *caseCtx) count(k string, n int) { c.res.Counters[k] += int64(n) }

// distinct records the signature of a non-trivial case (see the property's rule)
func (c *caseCtx) distinct(sig string) {
	c.res.distinctSet[hash64(sig)] = struct{}{}
}

func (c *caseCtx) violate(sig, msg string, detail interface{}) {
	c.nviol++
	c.res.Counters["viol:"+sig]++
	if c.res.Counters["viol:"+sig] > 4 || len(c.res.Violations) >= 40 {
		c.res.Counters["violations_dropped"]++
		return
	}
	b, _ := json.Marshal(detail)
	c.res.Violations = append(c.res.Violations, violation{Stream: c.stream, Idx: c.idx, Sig: sig, Msg: msg, Detail: b})
}

func (c *caseCtx) sample(v interface{}) {
	if len(c.res.Samples) >= 2 {
		return
	}
	b, err := json.Marshal(v)
	if err == nil && len(b) < 6000 {
		c.res.Samples = append(c.res.Samples, b)
	}
}

func (c *caseCtx) fragile() { c.res.Counters["skipped_fragile"]++ }

func (c *caseCtx) inconclusive(msg string) {
	c.res.Counters["inconclusive"]++
	if len(c.res.Inconclusive) < 5 {
		c.res.Inconclusive = append(c.res.Inconclusive, fmt.Sprintf("%s[%d]: %s", c.stream, c.idx, msg))
	}
}

// ---------------------------------------------------------------------------------------------
// entry point

func TestMain(m *testing.M) {
	flag.Parse()
	log.SetOutput(ioutil.Discard)
	gin.SetMode(gin.ReleaseMode)
	gin.DefaultWriter = ioutil.Discard
	gin.DefaultErrorWriter = ioutil.Discard
	if *fProp == "" && os.Getenv("VERIF_GOTEST") != "" {
		os.Exit(m.Run()) // development only: ad-hoc Test functions dropped next to the harness
	}
	if *fProp == "" {
		fmt.Fprintln(os.Stderr, "harness: -prop required (this binary is driven by /verif/bin/check)")
		os.Exit(2)
	}
	if *fReplay != "" {
		os.Exit(runReplay())
	}
	p, ok := props[*fProp]
	if !ok {
		fmt.Fprintf(os.Stderr, "harness: unknown property %s\n", *fProp)
		os.Exit(2)
	}
	if *fWorker {
		os.Exit(runWorker(p))
	}
	os.Exit(runSupervisor(p))
}

func findStream(p *propDef, name string) *stream {
	for _, s := range p.streams {
		if s.name == name {
			return s
		}
	}
	return nil
}

func runCase(p *propDef, s *stream, idx int, res *workerResult) {
	c := &caseCtx{prop: p.id, stream: s.name, idx: idx, seed: *fSeed, tier: *fTier, res: res}
	c.rng = rand.New(rand.NewSource(caseSeed(*fSeed, p.id+"/"+s.name, idx)))
	if s.service {
		// the case is: a short history of unrelated requests (accepted and rejected, every optional field present in
		// some and absent in others), then the property's own requests - all through decideHandler. The history belongs
		// to the case (derived from its seed), so a replay of the case alone sends it again.
		viaService = true
		serviceHistory(rand.New(rand.NewSource(caseSeed(*fSeed, p.id+"/"+s.name+"/history", idx))), idx, res)
		defer func() { viaService = false }()
	}
	s.run(c)
}

func runWorker(p *propDef) int {
	s := findStream(p, *fStream)
	if s == nil {
		return 2
	}
	res := newWorkerResult()
	// a runaway recursion in the code under test should die in about a second, not after growing a 1 GB stack
	debug.SetMaxStack(128 << 20)
	var pf *os.File
	if *fProgress != "" {
		pf, _ = os.OpenFile(*fProgress, os.O_CREATE|os.O_WRONLY, 0644)
	}
	var buf [8]byte
	for i := *fLo; i < *fHi; i++ {
		if pf != nil {
			binary.LittleEndian.PutUint64(buf[:], uint64(i)+1)
			pf.WriteAt(buf[:], 0)
		}
		runCase(p, s, i, res)
	}
	res.Done = true
	for h := range res.distinctSet {
		res.Distinct = append(res.Distinct, h)
	}
	b, _ := json.Marshal(res)
	if err := ioutil.WriteFile(*fOut, b, 0644); err != nil {
		return 2
	}
	return 0
}

// ---------------------------------------------------------------------------------------------
// supervisor

type unitJob struct {
	s      *stream
	lo, hi int
}

type aggregate struct {
	mu           sync.Mutex
	counters     map[string]int64
	distinct     map[uint64]struct{}
	violations   []violation
	samples      []json.RawMessage
	inconclusive []string
	perStream    map[string]int64
}

func (a *aggregate) merge(s *stream, r *workerResult, n int) {
	a.mu.Lock()
	defer a.mu.Unlock()
	for k, v := range r.Counters {
		if strings.HasPrefix(k, "max_") {
			if v > a.counters[k] {
				a.counters[k] = v
			}
			continue
		}
		a.counters[k] += v
	}
	for _, h := range r.Distinct {
		a.distinct[h] = struct{}{}
	}
	a.violations = append(a.violations, r.Violations...)
	if len(a.samples) < 4 {
		for _, sm := range r.Samples {
			if len(a.samples) < 4 {
				a.samples = append(a.samples, sm)
			}
		}
	}
	a.inconclusive = append(a.inconclusive, r.Inconclusive...)
	a.perStream[s.name] += int64(n)
}

func (a *aggregate) addViolation(v violation) {
	a.mu.Lock()
	a.violations = append(a.violations, v)
	a.mu.Unlock()
}

func (a *aggregate) addInconclusive(msg string) {
	a.mu.Lock()
	a.inconclusive = append(a.inconclusive, msg)
	a.mu.Unlock()
}

type unitOutcome struct {
	res      *workerResult
	crashed  bool
	timedOut bool
	lastIdx  int // last case started (-1 unknown)
	tail     string
}

var unitSeq int64
var unitSeqMu sync.Mutex

func runUnit(p *propDef, s *stream, lo, hi int) unitOutcome {
	unitSeqMu.Lock()
	unitSeq++
	id := unitSeq
	unitSeqMu.Unlock()
	base := filepath.Join(*fWorkDir, fmt.Sprintf("u%d", id))
	out, prog, logf := base+".json", base+".prog", base+".log"
	defer func() { os.Remove(out); os.Remove(prog); os.Remove(logf) }()
	args := []string{"-worker", "-prop", p.id, "-stream", s.name, "-lo", fmt.Sprint(lo), "-hi", fmt.Sprint(hi),
		"-seed", fmt.Sprint(*fSeed), "-tier", *fTier, "-out", out, "-progress", prog, "-workdir", *fWorkDir,
		"-server", *fServer, "-scale", fmt.Sprint(*fScale)}
	cmd := exec.Command(os.Args[0], args...)
	lf, _ := os.Create(logf)
	cmd.Stdout, cmd.Stderr = lf, lf
	cmd.SysProcAttr = &syscall.SysProcAttr{Setpgid: true}
	wd := s.watchdog
	if wd == 0 {
		wd = 20 * time.Minute
	}
	if err := cmd.Start(); err != nil {
		lf.Close()
		return unitOutcome{crashed: true, lastIdx: -1, tail: err.Error()}
	}
	done := make(chan error, 1)
	go func() { done <- cmd.Wait() }()
	var o unitOutcome
	select {
	case <-done:
	case <-time.After(wd):
		o.timedOut = true
		syscall.Kill(-cmd.Process.Pid, syscall.SIGQUIT)
		select {
		case <-done:
		case <-time.After(5 * time.Second):
			syscall.Kill(-cmd.Process.Pid, syscall.SIGKILL)
			<-done
		}
	}
	lf.Close()
	if b, err := ioutil.ReadFile(out); err == nil {
		r := newWorkerResult()
		if json.Unmarshal(b, r) == nil && r.Done {
			o.res = r
			return o
		}
	}
	o.crashed = true
	o.lastIdx = -1
	if b, err := ioutil.ReadFile(prog); err == nil && len(b) == 8 {
		o.lastIdx = int(binary.LittleEndian.Uint64(b)) - 1
	}
	if b, err := ioutil.ReadFile(logf); err == nil {
		if len(b) > 3000 {
			b = append(append([]byte{}, b[:1500]...), append([]byte("\n...\n"), b[len(b)-1400:]...)...)
		}
		o.tail = string(b)
	}
	return o
}

// runRange runs [lo,hi) of a stream in worker processes, isolating a crashing / non-returning case
// after this many reproduced crashes the remaining cases are not run: the verdict is settled, and a tree on
// which most cases die must not keep the check busy for hours
const maxCrashViolations = 3

var crashViolations int32

func runRange(p *propDef, s *stream, lo, hi int, agg *aggregate) {
	for lo < hi {
		if atomic.LoadInt32(&crashViolations) >= maxCrashViolations {
			agg.mu.Lock()
			agg.counters["cases_not_run_after_crashes"] += int64(hi - lo)
			agg.mu.Unlock()
			return
		}
		o := runUnit(p, s, lo, hi)
		if o.res != nil {
			agg.merge(s, o.res, hi-lo)
			return
		}
		k := o.lastIdx
		if k < lo || k >= hi {
			agg.addInconclusive(fmt.Sprintf("%s: worker for [%d,%d) died before reporting progress: %s", s.name, lo, hi, o.tail))
			return
		}
		if k > lo { // cases before k completed in the dead worker; run them again for their results
			o2 := runUnit(p, s, lo, k)
			if o2.res != nil {
				agg.merge(s, o2.res, k-lo)
			} else {
				agg.addInconclusive(fmt.Sprintf("%s: cases [%d,%d) did not complete on re-run", s.name, lo, k))
			}
		}
		// the suspicious case alone, in a fresh process
		o3 := runUnit(p, s, k, k+1)
		if o3.res != nil {
			agg.merge(s, o3.res, 1)
			if !o.timedOut && (strings.Contains(o.tail, "stack overflow") || strings.Contains(o.tail, "goroutine stack exceeds") || strings.Contains(o.tail, "concurrent map")) {
				// a fatal error of the Go runtime raised by the code under test (not by the environment): the case kills
				// the process at least sometimes - e.g. depending on map iteration order - even though it passed alone
				d, _ := json.Marshal(map[string]interface{}{"kind": "crash-not-reproduced", "output": o.tail})
				agg.addViolation(violation{Stream: s.name, Idx: k, Sig: "crash-not-reproduced",
					Msg: "executing the case killed the process with a fatal runtime error (stack overflow / concurrent map access); it passed when run again alone, so the failure is not deterministic", Detail: d})
			} else {
				agg.addInconclusive(fmt.Sprintf("%s[%d]: worker died (timeout=%v) but the case passed alone; not reproduced", s.name, k, o.timedOut))
			}
		} else {
			kind := "crash"
			if o3.timedOut {
				kind = "no-return"
			}
			atomic.AddInt32(&crashViolations, 1)
			d, _ := json.Marshal(map[string]interface{}{"kind": kind, "output": o3.tail})
			agg.addViolation(violation{Stream: s.name, Idx: k, Sig: kind,
				Msg: fmt.Sprintf("executing the case kills or blocks the process (%s), reproduced in a fresh worker", kind), Detail: d})
		}
		lo = k + 1
	}
}

type finding struct {
	status, property, signature, what, commit string
}

func loadFindings(path string) []finding {
	var fs []finding
	b, err := ioutil.ReadFile(path)
	if err != nil {
		return nil
	}
	for _, line := range strings.Split(string(b), "\n") {
		line = strings.TrimSpace(line)
		if line == "" || strings.HasPrefix(line, "#") {
			continue
		}
		switch {
		case strings.HasPrefix(line, "open:"):
			// open: property=<id> signature=<sig> <what fails>
			parts := strings.Fields(strings.TrimPrefix(line, "open:"))
			f := finding{status: "open"}
			rest := []string{}
			for _, x := range parts {
				if strings.HasPrefix(x, "property=") && f.property == "" {
					f.property = strings.TrimPrefix(x, "property=")
				} else if strings.HasPrefix(x, "signature=") && f.signature == "" {
					f.signature = strings.TrimPrefix(x, "signature=")
				} else {
					rest = append(rest, x)
				}
			}
			f.what = strings.Join(rest, " ")
			fs = append(fs, f)
		case strings.HasPrefix(line, "fixed:"):
			parts := strings.Fields(strings.TrimPrefix(line, "fixed:"))
			f := finding{status: "fixed"}
			if len(parts) >= 2 {
				f.property = strings.TrimPrefix(parts[0], "property=")
				f.commit = parts[1]
				f.what = strings.Join(parts[2:], " ")
			}
			fs = append(fs, f)
		}
	}
	return fs
}

func runSupervisor(p *propDef) int {
	start := time.Now()
	agg := &aggregate{counters: map[string]int64{}, distinct: map[uint64]struct{}{}, perStream: map[string]int64{}}
	var jobs []unitJob
	total := 0
	for _, s := range p.streams {
		n := s.n(*fTier)
		total += n
		u := s.unit
		if u <= 0 {
			u = 1000
		}
		for lo := 0; lo < n; lo += u {
			hi := lo + u
			if hi > n {
				hi = n
			}
			jobs = append(jobs, unitJob{s, lo, hi})
		}
	}
	ch := make(chan unitJob)
	var wg sync.WaitGroup
	var serialMu sync.Mutex
	for w := 0; w < *fJobs; w++ {
		wg.Add(1)
		go func() {
			defer wg.Done()
			for j := range ch {
				if j.s.serial {
					serialMu.Lock()
				}
				runRange(p, j.s, j.lo, j.hi, agg)
				if j.s.serial {
					serialMu.Unlock()
				}
			}
		}()
	}
	for _, j := range jobs {
		ch <- j
	}
	close(ch)
	wg.Wait()

	// verdict
	findings := loadFindings(*fFindings)
	knownHit := map[string]int{}
	var unknown []violation
	for _, v := range agg.violations {
		matched := false
		for _, f := range findings {
			if f.status == "open" && f.property == p.id && f.signature == v.Sig {
				knownHit[f.signature]++
				matched = true
				break
			}
		}
		if !matched {
			unknown = append(unknown, v)
		}
	}
	sort.Slice(unknown, func(i, j int) bool {
		if unknown[i].Stream != unknown[j].Stream {
			return unknown[i].Stream < unknown[j].Stream
		}
		return unknown[i].Idx < unknown[j].Idx
	})
	exit := 0
	for _, f := range findings {
		if f.status == "open" && f.property == p.id {
			if knownHit[f.signature] > 0 {
				fmt.Printf("KNOWN-FINDING: property=%s %s (signature %s, observed %d times in this run)\n", p.id, f.what, f.signature, knownHit[f.signature])
			} else {
				fmt.Printf("KNOWN-FINDING: property=%s %s (signature %s, listed; not observed in this run)\n", p.id, f.what, f.signature)
			}
		}
	}
	shown := 0
	for i, v := range unknown {
		if shown >= 10 {
			break
		}
		path := filepath.Join(*fReplayDir, fmt.Sprintf("%s-%d-%d.json", p.id, *fSeed, i))
		rb, _ := json.MarshalIndent(map[string]interface{}{
			"property": p.id, "stream": v.Stream, "idx": v.Idx, "seed": *fSeed, "tier": *fTier, "scale": *fScale,
			"signature": v.Sig, "message": v.Msg, "detail": v.Detail,
		}, "", " ")
		os.MkdirAll(*fReplayDir, 0755)
		ioutil.WriteFile(path, rb, 0644)
		fmt.Printf("VIOLATION property=%s replay=%s\n", p.id, path)
		fmt.Printf("  %s[%d] %s: %s\n", v.Stream, v.Idx, v.Sig, v.Msg)
		shown++
		exit = 1
	}
	if len(unknown) > shown {
		fmt.Printf("  ... %d further violations not listed\n", len(unknown)-shown)
	}
	// floors
	var floorFail []string
	for _, s := range p.streams {
		for k, min := range s.floors {
			if agg.counters[k] < min {
				floorFail = append(floorFail, fmt.Sprintf("%s: counter %s = %d below the floor %d", s.name, k, agg.counters[k], min))
			}
		}
	}
	sort.Strings(floorFail)
	if exit == 0 && (len(agg.inconclusive) > 0 || len(floorFail) > 0) {
		exit = 2
	}
	for _, m := range floorFail {
		if exit != 1 {
			fmt.Println("INCONCLUSIVE (monitor observed too little):", m)
		}
	}
	for i, m := range agg.inconclusive {
		if i < 10 {
			fmt.Println("INCONCLUSIVE:", m)
		}
	}
	wall := time.Since(start).Seconds()
	writeEvidence(p, agg, total, len(unknown), knownHit, wall, floorFail)
	verdict := map[int]string{0: "held on everything observed", 1: "VIOLATED", 2: "inconclusive"}[exit]
	fmt.Printf("%s tier=%s seed=%d: %s; evaluations=%d distinct_nontrivial=%d violations=%d known=%d skipped_fragile=%d wall=%.1fs\n",
		p.id, *fTier, *fSeed, verdict, agg.counters["evaluations"], len(agg.distinct), len(unknown), len(knownHit), agg.counters["skipped_fragile"], wall)
	return exit
}

func writeEvidence(p *propDef, agg *aggregate, totalCases, nviol int, knownHit map[string]int, wall float64, floorFail []string) {
	if *fEvidence == "" {
		return
	}
	cov := map[string]interface{}{}
	keys := make([]string, 0, len(agg.counters))
	for k := range agg.counters {
		keys = append(keys, k)
	}
	sort.Strings(keys)
	counters := map[string]int64{}
	for _, k := range keys {
		counters[k] = agg.counters[k]
	}
	evals := agg.counters["evaluations"]
	if evals == 0 {
		evals = int64(totalCases)
	}
	cov["evaluations"] = evals
	cov["distinct_nontrivial"] = len(agg.distinct)
	cov["rule"] = p.rule
	samples := []interface{}{}
	for _, s := range agg.samples {
		var v interface{}
		json.Unmarshal(s, &v)
		samples = append(samples, v)
	}
	cov["samples"] = samples
	cov["cases"] = totalCases
	cov["counters"] = counters
	cov["cases_per_stream"] = agg.perStream
	exh := []string{}
	allExh := len(p.streams) > 0
	streamNotes := map[string]string{}
	for _, s := range p.streams {
		if s.exhaustive {
			exh = append(exh, s.name)
		} else {
			allExh = false
		}
		if s.note != "" {
			streamNotes[s.name] = s.note
		}
	}
	cov["exhaustive"] = allExh
	cov["exhaustive_streams"] = exh
	cov["streams"] = streamNotes
	cov["known_findings_observed"] = knownHit
	cov["inconclusive"] = append(append([]string{}, agg.inconclusive...), floorFail...)
	ev := map[string]interface{}{
		"property_id": p.id,
		"tier":        *fTier,
		"seed":        *fSeed,
		"level":       "exploration",
		"coverage":    cov,
		"assumptions": p.assumptions,
		"wall_s":      wall,
		"violations":  nviol,
	}
	b, _ := json.MarshalIndent(ev, "", " ")
	os.MkdirAll(filepath.Dir(*fEvidence), 0755)
	ioutil.WriteFile(*fEvidence, b, 0644)
}

// ---------------------------------------------------------------------------------------------
// replay

func runReplay() int {
	b, err := ioutil.ReadFile(*fReplay)
	if err != nil {
		fmt.Fprintln(os.Stderr, "replay:", err)
		return 2
	}
	var r struct {
		Property string  `json:"property"`
		Stream   string  `json:"stream"`
		Idx      int     `json:"idx"`
		Seed     int64   `json:"seed"`
		Tier     string  `json:"tier"`
		Scale    float64 `json:"scale"`
	}
	if err := json.Unmarshal(b, &r); err != nil {
		fmt.Fprintln(os.Stderr, "replay:", err)
		return 2
	}
	p, ok := props[r.Property]
	if !ok {
		return 2
	}
	s := findStream(p, r.Stream)
	if s == nil {
		return 2
	}
	*fSeed, *fTier = r.Seed, r.Tier
	if r.Scale > 0 {
		*fScale = r.Scale
	}
	res := newWorkerResult()
	runCase(p, s, r.Idx, res)
	if len(res.Violations) == 0 {
		fmt.Printf("replay %s %s[%d]: no violation on this tree\n", r.Property, r.Stream, r.Idx)
		return 0
	}
	for _, v := range res.Violations {
		fmt.Printf("VIOLATION property=%s replay=%s\n  %s[%d] %s: %s\n  detail: %s\n", r.Property, *fReplay, v.Stream, v.Idx, v.Sig, v.Msg, string(v.Detail))
	}
	return 1
}
