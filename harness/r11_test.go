package main

import (
	"bytes"
	"fmt"
)

// Streams added after seeded round 11 (see DESIGN.md section 11): corners the generators did not reach.

// c07EmptyLevels: the two heuristics that work through explicit aspiration levels, configured with NO level at all
// (an empty list, or the list left out) - answered with a ranking on their own, so every bias sequence has to
// combine with them too (criteria are removed from / added to zero levels).
func c07EmptyLevels(c *caseCtx) {
	method := []string{"satisfactionHeuristic", "aspectEliminationHeuristic"}[c.idx%2]
	seq := biasSeqs[1+(c.idx/2)%(len(biasSeqs)-1)]
	o := genOpts{method: method, biasSeq: append([]string{}, seq...), minCrit: 1, maxCrit: 4, minAlt: 1, maxAlt: 5, allCons: c.rng.Intn(3), allFire: c.rng.Intn(3) != 0, negValues: c.rng.Intn(4) == 0}
	g := genRequest(c.rng, o)
	mp := g.M["methodParameters"].(M)
	mp["function"] = "thresholds"
	switch c.rng.Intn(3) {
	case 0:
		mp["params"] = M{"thresholds": []interface{}{}}
	case 1:
		mp["params"] = M{}
	default:
		delete(mp, "params")
	}
	c.count("empty_levels_requests", 1)
	c07Run(c, g)
}

// c02SurplusKeys: aspiration levels that name a criterion the request does not declare (input the service accepts):
// whether the request is answered, and with what, may not depend on the order in which a level's map is walked.
func c02SurplusKeys(c *caseCtx) {
	method := []string{"satisfactionHeuristic", "aspectEliminationHeuristic"}[c.idx%2]
	g := genRequest(c.rng, genOpts{method: method, nBiases: c.rng.Intn(2), minCrit: 1, maxCrit: 4, minAlt: 2, maxAlt: 5, negValues: c.rng.Intn(4) == 0})
	mp := g.M["methodParameters"].(M)
	ids := make([]string, len(g.crits))
	for i, cs := range g.crits {
		ids[i] = cs.id
	}
	for mp["function"] != "thresholds" {
		genLevels(c.rng, mp, ids, method == "aspectEliminationHeuristic", profDyadic)
	}
	hard := c.rng.Intn(2) == 0
	for _, l := range mp["params"].(M)["thresholds"].([]interface{}) {
		t := l.(M)
		if hard {
			// levels nobody meets: every alternative fails some declared criterion at every level
			for _, cs := range g.crits {
				if cs.cost {
					t[cs.id] = -1000.0
				} else {
					t[cs.id] = 1000.0
				}
			}
		}
		if c.rng.Intn(4) != 0 {
			t["aa_surplus"] = quarter(c.rng, 0, 40)
		}
		if c.rng.Intn(2) == 0 {
			t["zz_surplus"] = quarter(c.rng, 0, 40)
		}
		if c.rng.Intn(2) == 0 {
			t["c_surplus"] = quarter(c.rng, 0, 40)
		}
	}
	body := g.body()
	R := 12
	first := decide(body, false)
	c.count("evaluations", 1)
	for rep := 1; rep < R; rep++ {
		d := decide(body, rep%2 == 0)
		c.count("evaluations", 1)
		if d.OK != first.OK {
			c.violate("verdict-not-repeatable", fmt.Sprintf("repetition %d: accepted=%v, first run accepted=%v (%s / %s)", rep, d.OK, first.OK, d.Err, first.Err), M{"request": g.M})
			return
		}
		if d.OK && !bytes.Equal(d.JSON, first.JSON) {
			c.violate("bytes-not-repeatable", fmt.Sprintf("repetition %d of the same request in the same process gives different bytes", rep),
				M{"request": g.M, "first": string(first.JSON), "again": string(d.JSON)})
			return
		}
	}
	if first.OK {
		c.count("surplus_key_requests_accepted_repeated", 1)
	} else {
		c.count("surplus_key_requests_rejected_repeated", 1)
	}
	c.count("surplus_key_requests_repeated", 1)
	c.count("nontrivial", 1)
	c.distinct(string(body))
}

// ids whose "natural" (numeric-suffix) order and plain string order disagree, next to ids that are no prefix+digits at all
var hostileAltIds = []string{"a9", "a10", "a1x", "b", "a2", "a02", "10", "9", "a", "a100", "a1", "A10", "a1_", "a-1", "x9", "x10", "x1y"}

// c04ConcealedIds: weighted sum after a criteria concealment (seeded values for the new criterion, one per
// alternative) on alternatives with such ids: value, position class and links of each alternative are the same for
// every listing order.
func c04ConcealedIds(c *caseCtx) {
	method := "weightedSum"
	o := genOpts{method: method, minAlt: 3, maxAlt: 8, minCrit: 1, maxCrit: 4, allCons: c.idx % 2, negValues: c.rng.Intn(2) == 0, allFire: true,
		profile: []string{profTies, profDyadic}[c.rng.Intn(2)], noRandom: true, plainIds: true}
	o.biasSeq = []string{"criteriaConcealment"}
	if c.rng.Intn(3) == 0 {
		o.biasSeq = []string{pick(c.rng, []string{"preferenceReversal", "criteriaOmission"}), "criteriaConcealment"}
	}
	if c.idx%4 == 3 {
		// three stages: the concealed values of ALL known alternatives matter once an anchoring (last, its results are
		// not exact) takes its reference point from alternatives that may not be considered
		o.biasSeq = []string{"criteriaConcealment", "anchoring"}
		o.allCons, o.anchorZeroCoef = 2, true
	}
	g := genRequest(c.rng, o)
	// rename the alternatives
	perm := c.rng.Perm(len(hostileAltIds))
	ren := map[string]string{}
	for i, id := range g.altIds {
		ren[id] = hostileAltIds[perm[i]]
	}
	for _, a := range g.M["knownAlternatives"].([]interface{}) {
		a.(M)["id"] = ren[a.(M)["id"].(string)]
	}
	ch := g.M["choseToMake"].([]interface{})
	for i := range ch {
		ch[i] = ren[ch[i].(string)]
	}
	for _, b := range g.M["biases"].([]interface{}) {
		if ps, ok := b.(M)["props"].(M); ok {
			if aas, ok := ps["anchoringAlternatives"].([]interface{}); ok {
				for _, aa := range aas {
					if id, ok := aa.(M)["alternative"].(string); ok {
						aa.(M)["alternative"] = ren[id]
					}
				}
			}
		}
	}
	if c.rng.Intn(3) == 0 {
		// values for criteria nobody declared (input the weighted sum accepts and ignores): they take no part in anything,
		// whatever position they have in an alternative's map
		for _, a := range g.M["knownAlternatives"].([]interface{}) {
			cv := a.(M)["criteria"].(M)
			if c.rng.Intn(3) != 0 {
				cv["aa_undeclared"] = quarter(c.rng, 0, 400)
			}
			if c.rng.Intn(2) == 0 {
				cv["zz_undeclared"] = quarter(c.rng, 0, 400)
			}
			if c.rng.Intn(2) == 0 {
				cv["c_undeclared"] = quarter(c.rng, 0, 400)
			}
		}
		c.count("with_undeclared_values", 1)
	}
	d := decide(g.body(), false)
	c.count("evaluations", 1)
	if !d.OK {
		c.count("rejected", 1)
		return
	}
	es, ok := entriesOfView(d.View)
	if !ok {
		c.violate("no-value", "evaluation.value missing", M{"request": g.M})
		return
	}
	if msg := c04Oracle(es); msg != "" {
		c.violate("ranking-links", msg, M{"request": g.M, "result": d.View.Result})
		return
	}
	base := map[string]rankedVal{}
	for _, e := range es {
		base[e.id] = e
	}
	for rep := 0; rep < 4; rep++ {
		p := deepCopyM(g.M)
		ka := p["knownAlternatives"].([]interface{})
		c.rng.Shuffle(len(ka), func(i, j int) { ka[i], ka[j] = ka[j], ka[i] })
		cm := p["choseToMake"].([]interface{})
		c.rng.Shuffle(len(cm), func(i, j int) { cm[i], cm[j] = cm[j], cm[i] })
		d2 := decide((&genReq{M: p, method: method}).body(), false)
		c.count("evaluations", 1)
		c.count("permutations_after_concealment", 1)
		if !d2.OK {
			c.violate("perm-rejected", "permuted request rejected: "+d2.Err, M{"request": g.M, "permuted": p})
			return
		}
		es2, _ := entriesOfView(d2.View)
		if len(es2) != len(es) {
			c.violate("perm-size", "permuted request gives another number of entries", M{"request": g.M, "permuted": p})
			return
		}
		for _, e := range es2 {
			b := base[e.id]
			if e.value != b.value {
				c.violate("perm-value", fmt.Sprintf("value of %s (after a seeded concealment) depends on listing order: %v vs %v", e.id, b.value, e.value), M{"request": g.M, "permuted": p})
				return
			}
			if fmt.Sprint(sortedStrings(e.links)) != fmt.Sprint(sortedStrings(b.links)) {
				c.violate("perm-links", fmt.Sprintf("links of %s (after a seeded concealment) depend on listing order: %v vs %v", e.id, b.links, e.links), M{"request": g.M, "permuted": p})
				return
			}
		}
	}
	if len(es) >= 2 {
		c.count("nontrivial", 1)
		c.distinct("concealedIds|" + tiePattern(es))
	}
}

// c18NegativeWeights: the methods that accept weights of any sign (weighted sum, majority, aspect elimination) with
// some weights negative: the new criterion's weight is still a seeded fraction in [0,1) of the reference
// criterion's weight - negative when that one is.
func c18NegativeWeights(c *caseCtx, g *genReq) {
	if g.method != "weightedSum" && g.method != "majorityHeuristic" && g.method != "aspectEliminationHeuristic" {
		return
	}
	w, ok := g.M["methodParameters"].(M)["weights"].(M)
	if !ok {
		return
	}
	for _, k := range sortedKeysM(w) {
		if f, isNum := w[k].(float64); isNum && c.rng.Intn(3) != 0 {
			w[k] = -f
		}
	}
	c.count("negative_weights", 1)
}

func c18NegDriver(c *caseCtx) {
	focus := []string{"criteriaConcealment", "criteriaMixing"}[(c.idx/7)%2]
	biasDriver("C18", focus, oneToThree, c18NegativeWeights)(c)
}
