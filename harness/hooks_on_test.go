//go:build verif

package main

// Hooks compiled with the build tag "verif" (see MANIFEST.hooks): read-only access to the ELECTRE III credibility matrix.

import (
	"github.com/Azbesciak/RealDecisionMaker/lib/logic/preference-func/electreIII"
	"github.com/Azbesciak/RealDecisionMaker/lib/model"
	"github.com/Azbesciak/RealDecisionMaker/lib/utils"
)

const hooksEnabled = true

// hookCredibility recomputes, with the code under test, the credibility matrix for the data a snapshot holds
func hookCredibility(s *dmpSnap) (ids []string, sigma [][]float64, ok bool) {
	defer func() {
		if e := recover(); e != nil {
			ok = false
		}
	}()
	var crit model.Criteria
	for _, c := range s.Crit {
		cr := model.Criterion{Id: c.Id, Type: model.CriterionType(c.Type)}
		if c.HasRng {
			cr.ValuesRange = &utils.ValueRange{Min: c.Lo, Max: c.Hi}
		}
		crit = append(crit, cr)
	}
	var alts []model.AlternativeWithCriteria
	for _, a := range s.Cons {
		w := model.Weights{}
		for k, v := range a.V {
			w[k] = v
		}
		alts = append(alts, model.AlternativeWithCriteria{Id: a.Id, Criteria: w})
	}
	ec := electreIII.ElectreCriteria{}
	for id, e := range s.Params.Electre {
		ec[id] = electreIII.ElectreCriterion{K: e.K,
			Q: utils.LinearFunctionParameters{A: e.QA, B: e.Q}, P: utils.LinearFunctionParameters{A: e.PA, B: e.P}, V: utils.LinearFunctionParameters{A: e.VA, B: e.V}}
	}
	ids, sigma = electreIII.VerifCredibilityMatrix(alts, crit, &ec)
	return ids, sigma, true
}
