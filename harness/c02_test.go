package main

// C02 — decisions are repeatable: same request => same bytes (same process, fresh processes, after histories).

import (
	"bytes"
	"fmt"
	"math/rand"
)

func c02Gen(r *rand.Rand, i int) *genReq {
	method := methods[i%len(methods)]
	if r.Intn(12) == 0 {
		// an otherwise valid request violating one documented constraint (all kinds of validation errors are part of
		// histories and of concurrent traffic)
		for try := 0; try < 20; try++ {
			cst := constraints[r.Intn(len(constraints))]
			ok := cst.methods == nil
			for _, m := range cst.methods {
				if m == method {
					ok = true
				}
			}
			if ok {
				g := validBase(method, r)
				cst.apply(g.M)
				g.invalid = true
				return g
			}
		}
	}
	o := genOpts{method: method, nBiases: r.Intn(4), minCrit: 2, maxCrit: 5, minAlt: 2, maxAlt: 6, negValues: r.Intn(4) == 0, dupChosen: true, caseCrit: true}
	if method == "choquetIntegral" {
		o.maxCrit = 6 // up to 7 criteria after an adding bias (size thresholds in the power-set handling)
	}
	g := genRequest(r, o)
	if method == "choquetIntegral" && r.Intn(3) == 0 {
		// values of one alternative that are nearly (not exactly) tied: their order must not be left to map iteration
		for _, a := range g.M["knownAlternatives"].([]interface{}) {
			cv := a.(M)["criteria"].(M)
			base := quarter(r, 0, 12)
			for k := range cv {
				if r.Intn(2) == 0 {
					cv[k] = base + float64(r.Intn(16))*1e-6
				}
			}
		}
	}
	if method == "choquetIntegral" && len(g.crits) >= 3 && r.Intn(8) == 0 {
		// the capacity of one union of three criteria is given twice, under two unsorted spellings, with different values
		w := g.M["methodParameters"].(M)["weights"].(M)
		a, b, c3 := g.crits[0].id, g.crits[1].id, g.crits[2].id
		delete(w, a+","+b+","+c3)
		w[c3+","+a+","+b] = 1.0
		w[b+","+c3+","+a] = 0.25
		g.invalid = true
	}
	if method != "owa" && method != "choquetIntegral" && r.Intn(6) == 0 {
		// alternatives may carry values for criteria that are not declared (only the declared ones are required)
		for _, a := range g.M["knownAlternatives"].([]interface{}) {
			if r.Intn(2) == 0 {
				a.(M)["criteria"].(M)["zz_undeclared"] = quarter(r, 0, 40)
			}
			if r.Intn(3) == 0 {
				a.(M)["criteria"].(M)["aa_undeclared"] = quarter(r, 0, 40)
			}
		}
	}
	if r.Intn(10) == 0 {
		// some requests that are rejected: the verdict has to be repeatable too
		g.invalid = true
		switch r.Intn(3) {
		case 0:
			g.M["preferenceFunction"] = "noSuchMethod"
		case 1:
			g.M["choseToMake"] = []interface{}{"ghost"}
		case 2:
			g.M["biases"] = []interface{}{M{"name": "noSuchBias"}}
		}
	}
	return g
}

// number of maps with >= 2 keys feeding a computation (criteria values, weights, capacities, scalings)
func mapsWithTwoKeys(g *genReq) int {
	n := 0
	if len(g.crits) >= 2 {
		n += len(g.altIds) // criteria values of each alternative
		n++                // weights / capacities / electre criteria
	}
	return n
}

func c02InProcess(c *caseCtx) {
	g := c02Gen(c.rng, c.idx)
	body := g.body()
	R := 4
	if c.tier == "thorough" {
		R = 12
	}
	first := decide(body, false)
	c.count("evaluations", 1)
	for rep := 1; rep < R; rep++ {
		var d decision
		if rep%2 == 1 {
			d = decide(body, false)
		} else {
			d = decide(body, true) // decorated registries are a different object graph around the same code
		}
		c.count("evaluations", 1)
		if d.OK != first.OK {
			c.violate("verdict-not-repeatable", fmt.Sprintf("repetition %d: accepted=%v, first run accepted=%v (%s / %s)", rep, d.OK, first.OK, d.Err, first.Err), M{"request": g.M})
			return
		}
		if d.OK && !bytes.Equal(d.JSON, first.JSON) {
			c.violate("bytes-not-repeatable", fmt.Sprintf("repetition %d of the same request in the same process gives different bytes", rep),
				M{"request": g.M, "first": string(first.JSON), "again": string(d.JSON)})
			return
		}
	}
	if first.OK {
		c.count("accepted_repeated", 1)
	} else {
		c.count("rejected_repeated", 1)
	}
	if mapsWithTwoKeys(g) > 0 {
		c.count("nontrivial", 1)
		c.distinct(string(body))
	}
	if c.idx%1999 == 0 {
		c.sample(M{"request": g.M, "repetitions": R, "accepted": first.OK})
	}
}

// fresh processes, different histories, HTTP path vs library path
func c02Processes(c *caseCtx) {
	N, P := 250, 3
	if c.tier == "thorough" {
		N, P = 600, 8
	}
	corpus := make([]*genReq, N)
	bodies := make([][]byte, N)
	libRes := make([]decision, N)
	for i := range corpus {
		corpus[i] = c02Gen(c.rng, i)
		bodies[i] = corpus[i].body()
		libRes[i] = decide(bodies[i], false)
	}
	type obs struct {
		status int
		body   []byte
	}
	var ref []obs
	for p := 0; p < P; p++ {
		s, err := startServer()
		if err != nil {
			c.inconclusive("service did not start: " + err.Error())
			return
		}
		c.count("processes_started", 1)
		order := c.rng.Perm(N)
		got := make([]obs, N)
		for k, i := range order {
			// history: every process sees the corpus in another order, some requests twice
			r := s.post(bodies[i])
			c.count("evaluations", 1)
			if r.err != nil {
				tail := s.logTail(600)
				s.stop()
				c.violate("no-answer", fmt.Sprintf("request got no answer from process %d: %v", p, r.err), M{"request": corpus[i].M, "service_output": tail})
				return
			}
			got[i] = obs{r.status, bytes.TrimSpace(r.body)}
			if k%7 == 0 {
				r2 := s.post(bodies[i])
				c.count("evaluations", 1)
				if r2.status != r.status || (r.status == 200 && !bytes.Equal(bytes.TrimSpace(r2.body), got[i].body)) {
					s.stop()
					c.violate("bytes-not-repeatable", "the same request sent twice in a row to one process gives different responses", M{"request": corpus[i].M})
					return
				}
			}
			if k%64 == 0 {
				s.truncateLog()
			}
		}
		s.stop()
		for i := range got {
			// HTTP path == library path
			if (got[i].status == 200) != libRes[i].OK {
				c.violate("verdict-not-repeatable", fmt.Sprintf("HTTP status %d but the library path accepted=%v (%s)", got[i].status, libRes[i].OK, libRes[i].Err), M{"request": corpus[i].M})
				return
			}
			if got[i].status == 200 && !bytes.Equal(got[i].body, libRes[i].JSON) {
				c.violate("bytes-not-repeatable", "the HTTP response differs from the marshalled library result", M{"request": corpus[i].M, "http": string(got[i].body), "lib": string(libRes[i].JSON)})
				return
			}
			if ref != nil {
				if ref[i].status != got[i].status {
					c.violate("verdict-not-repeatable", fmt.Sprintf("status %d in one process, %d in another", ref[i].status, got[i].status), M{"request": corpus[i].M})
					return
				}
				if got[i].status == 200 && !bytes.Equal(ref[i].body, got[i].body) {
					c.violate("bytes-not-repeatable", "two fresh processes give different bytes for the same request", M{"request": corpus[i].M, "a": string(ref[i].body), "b": string(got[i].body)})
					return
				}
			}
		}
		if ref == nil {
			ref = got
		}
	}
	acc := 0
	for i := range corpus {
		if libRes[i].OK {
			acc++
		}
		if mapsWithTwoKeys(corpus[i]) > 0 {
			c.count("nontrivial", 1)
			c.distinct(string(bodies[i]))
		}
	}
	c.count("requests_compared_across_processes", N)
	c.count("accepted_in_corpus", acc)
	c.sample(M{"corpus": N, "processes": P, "accepted": acc, "example": corpus[0].M})
}

// sums over maps: float addition is not associative, so a total accumulated by ranging over a map (weights, electre
// criteria, capacities) differs in the last bit from one call to the next. It shows only when a comparison sits exactly on
// the boundary: "human" decimal weights in 0.05 steps, integer performances, crisp integer thresholds.
func c02MapOrder(c *caseCtx) {
	r := c.rng
	method := []string{"electreIII", "electreIII", "majorityHeuristic", "electreIII", "aspectEliminationHeuristic", "weightedSum", "electreIII", "owa"}[c.idx%8]
	g := genRequest(r, genOpts{method: method, profile: profTies, minCrit: 4, maxCrit: 6, minAlt: 4, maxAlt: 7, nBiases: (c.idx / 8) % 2, allCons: 1, vetoHeavy: c.idx%3 == 0})
	mp := g.M["methodParameters"].(M)
	step := func() float64 { return float64(1+r.Intn(12)) * 0.05 }
	if ec, ok := mp["electreCriteria"].(M); ok {
		for _, e := range ec {
			e.(M)["k"] = step()
		}
		if c.idx%4 != 0 {
			delete(mp, "electreDistillation") // the default function: cut levels like 0.85 against concordances like 0.85
		}
	}
	if w, ok := mp["weights"].(M); ok {
		for k := range w {
			w[k] = step()
		}
	}
	if method == "weightedSum" || method == "owa" {
		// amounts with cents above 1e7: a sum taken in another order differs before the eighth decimal; an omission hands
		// the kept criteria and their weights on in a new order (or in the order of a map, if someone builds one)
		for _, a := range g.M["knownAlternatives"].([]interface{}) {
			cv := a.(M)["criteria"].(M)
			for k := range cv {
				cv[k] = float64(10000000+r.Intn(900000000)) + float64(r.Intn(100))/100
			}
		}
		for _, cr := range g.M["criteria"].([]interface{}) {
			delete(cr.(M), "valuesRange")
		}
		g.M["biases"] = []interface{}{M{"name": "criteriaOmission", "props": M{"ratio": 0.2, "min": 1, "max": 1}}}
		c.count("money_like_requests", 1)
	}
	body := g.body()
	R := 8
	if c.tier == "thorough" {
		R = 16
	}
	first := decide(body, false)
	c.count("evaluations", 1)
	for rep := 1; rep < R; rep++ {
		d := decide(body, rep%4 == 3)
		c.count("evaluations", 1)
		if d.OK != first.OK {
			c.violate("verdict-not-repeatable", fmt.Sprintf("repetition %d: accepted=%v, first run accepted=%v (%s / %s)", rep, d.OK, first.OK, d.Err, first.Err), M{"request": g.M})
			return
		}
		if d.OK && !bytes.Equal(d.JSON, first.JSON) {
			c.violate("bytes-not-repeatable", fmt.Sprintf("repetition %d of the same request (decimal weights) in the same process gives different bytes", rep),
				M{"request": g.M, "first": string(first.JSON), "again": string(d.JSON)})
			return
		}
	}
	if first.OK {
		c.count("decimal_weight_requests_repeated", 1)
		c.count("nontrivial", 1)
		c.distinct(string(body))
	}
}

// defaults: whatever a request leaves unsaid (draw policy, ordering, reference strategy, level function options) is
// decided the same way by every process start - not by the iteration order of a registry built at start-up
func c02Defaults(c *caseCtx) {
	N, P := 70, 10
	bodies := make([][]byte, N)
	corpus := make([]*genReq, N)
	for i := range corpus {
		g := genRequest(c.rng, genOpts{method: methods[i%len(methods)], profile: profTies, nBiases: i % 3, minCrit: 2, maxCrit: 4, minAlt: 3, maxAlt: 6, allFire: true})
		stripOptional(g)
		corpus[i], bodies[i] = g, g.body()
	}
	type obs struct {
		status int
		body   []byte
	}
	var ref []obs
	for p := 0; p < P; p++ {
		s, err := startServer()
		if err != nil {
			c.inconclusive("service did not start: " + err.Error())
			return
		}
		c.count("processes_started", 1)
		got := make([]obs, N)
		for i := range bodies {
			r := s.post(bodies[i])
			c.count("evaluations", 1)
			if r.err != nil {
				tail := s.logTail(600)
				s.stop()
				c.violate("no-answer", fmt.Sprintf("request got no answer from process %d: %v", p, r.err), M{"request": corpus[i].M, "service_output": tail})
				return
			}
			got[i] = obs{r.status, bytes.TrimSpace(r.body)}
		}
		s.stop()
		if ref == nil {
			ref = got
			continue
		}
		for i := range got {
			if ref[i].status != got[i].status {
				c.violate("verdict-not-repeatable", fmt.Sprintf("a request relying on defaults gets status %d from one process start and %d from another", ref[i].status, got[i].status), M{"request": corpus[i].M})
				return
			}
			if got[i].status == 200 && !bytes.Equal(ref[i].body, got[i].body) {
				c.violate("bytes-not-repeatable", "a request relying on defaults gets different bytes from two process starts", M{"request": corpus[i].M, "a": string(ref[i].body), "b": string(got[i].body)})
				return
			}
		}
	}
	c.count("default_requests_compared_across_starts", N)
	c.count("nontrivial", N)
	c.distinct(fmt.Sprintf("defaults|%d", c.idx))
}

// very long generated series (millions of levels: seconds of work): the answer does not depend on how fast the machine is
func c02LongSeries(c *caseCtx) {
	g := validBase("satisfactionHeuristic", c.rng)
	mp := g.M["methodParameters"].(M)
	mp["function"] = "idealSubtractiveCoefficient"
	mp["params"] = M{"coefficient": []float64{2e-7, 3e-7}[c.idx%2], "minValue": 0.01, "maxValue": 1.0}
	// one alternative is accepted early, one very late, one never
	g.M["knownAlternatives"] = []interface{}{
		M{"id": "a0", "criteria": M{"c0": 38.0, "c1": 39.0, "c2": 1.0}}, M{"id": "a1", "criteria": M{"c0": 3.0, "c1": 2.0, "c2": 38.0}}, M{"id": "a2", "criteria": M{"c0": 0.0, "c1": 0.0, "c2": 40.0}}, M{"id": "a3", "criteria": M{"c0": 40.0, "c1": 40.0, "c2": 0.0}}}
	g.M["choseToMake"] = []interface{}{"a0", "a1", "a2"}
	body := g.body()
	first := decide(body, false)
	c.count("evaluations", 1)
	for rep := 1; rep < 3; rep++ {
		d := decide(body, false)
		c.count("evaluations", 1)
		if d.OK != first.OK || (d.OK && !bytes.Equal(d.JSON, first.JSON)) {
			c.violate("bytes-not-repeatable", fmt.Sprintf("repetition %d of a request with millions of generated levels gives a different response", rep), M{"request": g.M, "first": string(first.JSON), "again": string(d.JSON)})
			return
		}
	}
	if first.OK {
		c.count("long_series_repeated", 1)
		c.count("nontrivial", 1)
		c.distinct(fmt.Sprintf("longSeries|%d", c.idx))
	} else {
		c.count("rejected", 1)
	}
}

// large problems: implementations may switch strategy (batching, worker goroutines) above a size threshold
func c02Large(c *caseCtx) {
	method := []string{"weightedSum", "owa", "majorityHeuristic", "satisfactionHeuristic", "aspectEliminationHeuristic", "electreIII"}[c.idx%6]
	na := 256 + c.rng.Intn(500)
	if method == "electreIII" {
		na = 130 + c.rng.Intn(60)
	}
	g := genRequest(c.rng, genOpts{method: method, minAlt: na, maxAlt: na, minCrit: 2, maxCrit: 4, nBiases: 1 + c.rng.Intn(3), allFire: true, profile: profReals})
	body := g.body()
	first := decide(body, false)
	c.count("evaluations", 1)
	for rep := 1; rep < 3; rep++ {
		d := decide(body, false)
		c.count("evaluations", 1)
		if d.OK != first.OK || (d.OK && !bytes.Equal(d.JSON, first.JSON)) {
			c.violate("bytes-not-repeatable", fmt.Sprintf("repetition %d of a request with %d alternatives gives a different response", rep, na), M{"method": method, "alternatives": na, "biases": g.M["biases"], "seed_case": c.idx})
			return
		}
	}
	if first.OK {
		c.count("large_repeated", 1)
		c.count("nontrivial", 1)
		c.distinct(fmt.Sprintf("large|%s|%d|%d", method, na, c.idx))
	}
}

func init() {
	register(&propDef{
		id: "C02",
		rule: "generated requests over all methods x 0..3 biases incl. every random option (random orderings, random draw policy, random reference strategies, seeded shuffles) " +
			"and ~10% rejected ones. Stream inProcess: each request R times in one process (pristine and decorated registries alternate; Go re-randomises map iteration per " +
			"range statement) - identical bytes / identical verdict. Stream processes: a corpus sent to P fresh service processes in different orders (different " +
			"histories, some requests twice in a row) - identical status, identical bytes for 200, equal to the marshalled library result. Stream large: problems with " +
			"hundreds of alternatives (size thresholds), 3 repetitions. Non-trivial = request with >=1 map " +
			"of >=2 keys feeding a computation, observed >=2 times; distinct = distinct request bodies.",
		assumptions: []string{"wall-clock independence is only exercised by running at different times in different processes (the clock cannot be moved)",
			"rejected requests are compared on the verdict only (lists of available names are printed in map order)"},
		streams: []*stream{
			{name: "inProcess", n: tierN(7000, 150000), unit: 1750, run: c02InProcess, floors: map[string]int64{"accepted_repeated": 5000, "rejected_repeated": 300}},
			{name: "mapOrder", n: tierN(4000, 40000), unit: 1000, run: c02MapOrder, floors: map[string]int64{"decimal_weight_requests_repeated": 3000},
				note: ">=3 criteria with weights / k in 0.05 steps, integer performances and thresholds, 8 (thorough 16) repetitions each: a total summed in map order differs in the last bit between calls and flips comparisons that sit exactly on a boundary"},
			{name: "surplusKeys", n: tierN(1500, 30000), unit: 750, run: c02SurplusKeys, floors: map[string]int64{"surplus_key_requests_repeated": 1400},
				note: "satisfaction / aspect elimination with explicit levels that also name criteria the request does not declare (half of them levels nobody meets), 12 repetitions each: verdict and bytes may not depend on the walk order of a level's map"},
			{name: "longSeries", n: tierN(2, 6), unit: 1, run: c02LongSeries, floors: map[string]int64{"long_series_repeated": 2},
				note: "satisfaction heuristic with a subtractive coefficient of 2e-7 / 3e-7 (3 to 5 million levels, seconds of work), 3 repetitions"},
			{name: "large", n: tierN(48, 600), unit: 4, run: c02Large, floors: map[string]int64{"large_repeated": 30},
				note: "requests with 256..755 alternatives (ELECTRE 130..189) and 1..3 fired biases, 3 repetitions each"},
			{name: "defaults", n: tierN(2, 6), unit: 1, run: c02Defaults, floors: map[string]int64{"default_requests_compared_across_starts": 140},
				note: "70 tie-heavy requests that leave every optional choice (draw policy, ordering, reference strategy) to the defaults, sent to 10 fresh process starts each"},
			{name: "processes", n: tierN(3, 12), unit: 1, run: c02Processes, floors: map[string]int64{"processes_started": 9, "requests_compared_across_processes": 700}},
		},
	})
}
