package main

// Seeded request generator (DESIGN.md 2.2): methods x biases x options, value profiles, domain guard.

import (
	"encoding/json"
	"fmt"
	"math"
	"math/rand"
	"sort"
	"strings"
)

type M = map[string]interface{}

var methods = []string{"weightedSum", "owa", "choquetIntegral", "electreIII", "majorityHeuristic", "aspectEliminationHeuristic", "satisfactionHeuristic"}
var biasNames = []string{"criteriaOmission", "criteriaConcealment", "criteriaMixing", "preferenceReversal", "fatigue", "anchoring"}
var orderings = []string{"", "weakest", "strongest", "random", "weakestByProbability", "strongestByProbability"}
var refTypes = []string{"", "importanceRatio", "randomUniform", "randomWeighted"}
var drawPolicies = []string{"", "allow", "current", "newer", "random"}

const (
	profTies   = "ties"
	profDyadic = "dyadic"
	profReals  = "reals"
)

type critSpec struct {
	id     string
	cost   bool
	hasRng bool
	lo, hi float64
}

type genOpts struct {
	method         string
	profile        string
	minCrit        int
	maxCrit        int
	minAlt         int
	maxAlt         int
	nBiases        int      // number of bias entries
	biasPool       []string // names to draw from (default all)
	biasSeq        []string // exact sequence (overrides nBiases/biasPool)
	fixedOrder     bool     // heuristics: randomAlternativesOrdering=false
	noRandom       bool     // no random draw policy, no random orderings/reference strategies
	allCons        int      // 0 random, 1 all considered, 2 strictly fewer (if possible)
	noRange        bool     // never declare valuesRange
	allFire        bool     // every bias has probability 1 and is enabled
	negValues      bool     // allow negative values
	gainOnly       bool
	distinctW      bool // pairwise distinct weights
	noCurrent      bool // no currentChoice
	extraWeight    bool // allow a superfluous weight entry where the method accepts it
	anchorZeroCoef bool // anchoring alternatives with coefficient 0 / without a coefficient next to weighted ones
	plainIds       bool // never generate ids that differ only in case
	dupChosen      bool // choseToMake sometimes names an alternative twice (it is still considered once, at its first position)
	blankId        bool // sometimes one alternative is called " " (a legal, if odd, id)
	caseCrit       bool // sometimes two criteria ids differ only in case ("c1" / "C1")
	zeroW          bool // sometimes one weight is exactly 0
	vetoHeavy      bool // ELECTRE: every criterion has q, p and v (several discordant criteria per pair)
	decimalW       bool // weights are multiples of 0.1: sums that are equal mathematically differ by a few ulps in float64
	nearTiedW      bool // weights differ by 1e-7 only (distinct, but inside any "reasonable" epsilon)
	bigNumbers     bool // values and weights around 1e6 that differ by small integers (absolute vs relative tolerances)
}

type genReq struct {
	M       M
	method  string
	profile string
	crits   []critSpec
	altIds  []string
	chose   []string
	invalid bool // made invalid on purpose (must be rejected)
}

func (g *genReq) body() []byte {
	b, err := json.Marshal(g.M)
	if err != nil {
		panic(err)
	}
	return b
}

func quarter(r *rand.Rand, lo, hi int) float64 { return float64(lo+r.Intn(hi-lo+1)) / 4 }

// setSeed: seeds are often 0 or left out (the documented default), otherwise small integers
func setSeed(r *rand.Rand, m M, key string) {
	switch x := r.Intn(10); {
	case x == 0:
	case x <= 2:
		m[key] = 0
	case x == 3:
		// seeds that agree in their low 31 / 32 bits (or differ in sign) are different seeds
		m[key] = int64(r.Intn(40)) + []int64{1 << 31, 1 << 32, -(1 << 31), (1 << 31) - 1}[r.Intn(4)]
	case x == 4:
		m[key] = r.Intn(40)
	default:
		m[key] = r.Intn(1000)
	}
}

func powerSetKeys(ids []string) []string {
	var res []string
	n := len(ids)
	for m := 1; m < 1<<uint(n); m++ {
		var s []string
		for j := 0; j < n; j++ {
			if m&(1<<uint(j)) != 0 {
				s = append(s, ids[j])
			}
		}
		res = append(res, strings.Join(s, ","))
	}
	return res
}

func pick(r *rand.Rand, xs []string) string { return xs[r.Intn(len(xs))] }

func genValue(r *rand.Rand, profile string, neg bool) float64 {
	switch profile {
	case profTies:
		return float64(r.Intn(3))
	case profDyadic:
		if neg {
			return quarter(r, -20, 40)
		}
		return quarter(r, 0, 40)
	default:
		v := r.Float64()*20 - 2
		if !neg && v < 0 {
			v = -v
		}
		return v
	}
}

func genWeight(r *rand.Rand, profile string) float64 {
	switch profile {
	case profTies:
		return float64(1 + r.Intn(3))
	case profDyadic:
		return quarter(r, 1, 20)
	default:
		return 0.05 + r.Float64()*5
	}
}

func genRequest(r *rand.Rand, o genOpts) *genReq {
	if o.maxCrit == 0 {
		o.minCrit, o.maxCrit = 1, 4
	}
	if o.maxAlt == 0 {
		o.minAlt, o.maxAlt = 1, 5
	}
	if o.profile == "" {
		o.profile = []string{profTies, profDyadic, profReals}[r.Intn(3)]
	}
	method := o.method
	nc := o.minCrit + r.Intn(o.maxCrit-o.minCrit+1)
	na := o.minAlt + r.Intn(o.maxAlt-o.minAlt+1)
	g := &genReq{method: method, profile: o.profile}
	crit := make([]interface{}, nc)
	ids := make([]string, nc)
	for i := 0; i < nc; i++ {
		ids[i] = fmt.Sprintf("c%d", i)
		if o.caseCrit && i >= 1 && method != "choquetIntegral" && r.Intn(10) == 0 && strings.ToUpper(ids[i-1]) != ids[i-1] {
			ids[i] = strings.ToUpper(ids[i-1])
		}
		cs := critSpec{id: ids[i]}
		t := "gain"
		if !o.gainOnly && method != "choquetIntegral" && method != "owa" && r.Intn(3) == 0 {
			t = "cost"
			cs.cost = true
		}
		c := M{"id": ids[i], "type": t}
		if t == "gain" && method != "choquetIntegral" && r.Intn(4) == 0 {
			delete(c, "type") // gain is the default
		}
		if !o.noRange && r.Intn(3) == 0 {
			cs.hasRng, cs.lo, cs.hi = true, -24, 48
			if r.Intn(2) == 0 {
				cs.lo, cs.hi = -2, 44
			}
			c["valuesRange"] = M{"min": cs.lo, "max": cs.hi}
		}
		crit[i] = c
		g.crits = append(g.crits, cs)
	}
	alts := make([]interface{}, na)
	g.altIds = make([]string, na)
	var base map[string]float64
	for i := 0; i < na; i++ {
		g.altIds[i] = fmt.Sprintf("a%d", i)
		if o.blankId && i == na-1 && r.Intn(10) == 0 {
			g.altIds[i] = " "
		} else if i >= 1 && !o.plainIds && r.Intn(16) == 0 {
			g.altIds[i] = strings.ToUpper(g.altIds[i-1]) // "A3" next to "a3": distinct ids that differ only in case
			if strings.ToUpper(g.altIds[i-1]) == g.altIds[i-1] {
				g.altIds[i] = fmt.Sprintf("a%d", i)
			}
		}
		cv := M{}
		cur := map[string]float64{}
		dup := base != nil && r.Intn(6) == 0 // planted identical alternative
		for _, id := range ids {
			v := genValue(r, o.profile, o.negValues)
			if o.bigNumbers {
				v = 2450000 + float64(r.Intn(4))
			}
			if dup {
				v = base[id]
			} else if base != nil && o.profile == profReals && r.Intn(8) == 0 {
				v = base[id] // shared value on one criterion
			}
			cv[id] = v
			cur[id] = v
		}
		base = cur
		alts[i] = M{"id": g.altIds[i], "criteria": cv}
	}
	perm := r.Perm(na)
	k := 1 + r.Intn(na)
	switch o.allCons {
	case 0:
		if r.Intn(3) == 0 {
			k = na
		}
	case 1:
		k = na
	case 2:
		if na > 1 {
			k = 1 + r.Intn(na-1)
		}
	}
	chose := make([]interface{}, k)
	for i := 0; i < k; i++ {
		chose[i] = g.altIds[perm[i]]
		g.chose = append(g.chose, g.altIds[perm[i]])
	}
	if o.dupChosen && r.Intn(8) == 0 {
		j := r.Intn(k)
		pos := j + 1 + r.Intn(k-j)
		chose = append(chose[:pos], append([]interface{}{chose[j]}, chose[pos:]...)...)
	}
	mp := M{}
	w := M{}
	used := map[float64]bool{}
	nearKind := r.Intn(4)
	nearPerm := r.Perm(len(ids)) // near-tied weights in no particular order (declaration order must not decide)
	for i, id := range ids {
		x := genWeight(r, o.profile)
		if o.decimalW {
			x = float64(1+r.Intn(5)) / 10
		}
		if o.nearTiedW {
			// distinct weights that sit inside any "reasonable" epsilon: 1e-7, 1e-10 or a single ulp apart,
			// or sums that are equal on paper only (0.1+0.2 vs 0.3)
			switch nearKind {
			case 0:
				x = 2.5 + float64(nearPerm[i])*1e-7
			case 1:
				x = 2.5 + float64(nearPerm[i])*1e-10
			case 2:
				x = 2.5 + float64(nearPerm[i])*4.440892098500626e-16
			default:
				x = []float64{0.1 + 0.2, 0.3, 0.1 + 0.7, 0.8, 0.7 + 0.2, 0.9}[i%6]
			}
		}
		if o.bigNumbers {
			x = 1200000 + float64(r.Intn(3))
		}
		for o.distinctW && used[x] {
			x += 0.25
		}
		used[x] = true
		w[id] = x
	}
	if o.zeroW && len(ids) >= 2 && r.Intn(8) == 0 {
		w[ids[r.Intn(len(ids))]] = 0.0
	}
	switch method {
	case "weightedSum":
		mp["weights"] = w
		if o.extraWeight && r.Intn(3) == 0 {
			w["zz_extra"] = 0.5
		}
	case "owa":
		mp["weights"] = w
	case "choquetIntegral":
		cw := M{}
		for _, key := range powerSetKeys(ids) {
			if o.profile == profReals {
				cw[key] = r.Float64()
			} else {
				cw[key] = float64(r.Intn(9)) / 8
			}
		}
		mp["weights"] = cw
	case "electreIII":
		mp["electreCriteria"] = genElectreCriteria(r, ids, o.profile, o.vetoHeavy)
		if r.Intn(2) == 0 {
			// any linear function that is non-negative on [0,1] with a non-positive slope (incl. s = 0)
			k := r.Intn(9)
			mp["electreDistillation"] = M{"a": -float64(r.Intn(k+1)) / 16, "b": float64(k) / 16}
			if r.Intn(4) == 0 {
				mp["electreDistillation"] = M{"b": float64(k) / 16} // a constant function: the slope is simply left out
			}
		}
	case "majorityHeuristic":
		mp["weights"] = w
		if o.extraWeight && r.Intn(3) == 0 {
			w["zz_extra"] = 0.5
		}
		pol := pick(r, drawPolicies)
		if o.noRandom && pol == "random" {
			pol = "newer"
		}
		mp["drawResolution"] = pol
	case "aspectEliminationHeuristic":
		mp["weights"] = w
		if o.extraWeight && r.Intn(3) == 0 {
			w["zz_extra"] = 0.5
		}
	}
	if !o.noCurrent && (method == "majorityHeuristic" || method == "satisfactionHeuristic") {
		switch r.Intn(3) {
		case 1:
			mp["currentChoice"] = g.chose[r.Intn(k)]
		case 2:
			mp["currentChoice"] = g.altIds[r.Intn(na)]
		}
	}
	if method == "majorityHeuristic" || method == "satisfactionHeuristic" || method == "aspectEliminationHeuristic" {
		setSeed(r, mp, "randomSeed")
		mp["randomAlternativesOrdering"] = !o.fixedOrder && r.Intn(2) == 0
		if mp["randomAlternativesOrdering"] == false && r.Intn(3) == 0 {
			delete(mp, "randomAlternativesOrdering")
		}
	}
	if method == "aspectEliminationHeuristic" || method == "satisfactionHeuristic" {
		genLevels(r, mp, ids, method == "aspectEliminationHeuristic", o.profile)
	}
	g.M = M{
		"preferenceFunction": method,
		"knownAlternatives":  alts,
		"choseToMake":        chose,
		"criteria":           crit,
		"methodParameters":   mp,
	}
	if r.Intn(8) != 0 {
		g.M["biasApplyRandomSeed"] = r.Intn(100000) * r.Intn(2)
		if r.Intn(4) == 0 {
			setSeed(r, g.M, "biasApplyRandomSeed")
		}
	}
	seq := o.biasSeq
	if seq == nil && o.nBiases > 0 {
		pool := o.biasPool
		if pool == nil {
			pool = biasNames
		}
		for i := 0; i < o.nBiases; i++ {
			seq = append(seq, pick(r, pool))
		}
	}
	if seq != nil {
		g.M["biases"] = genBiasSeq(r, seq, g, o)
	}
	return g
}

func genElectreCriteria(r *rand.Rand, ids []string, profile string, heavy bool) M {
	ec := M{}
	for _, id := range ids {
		e := M{"k": genWeight(r, profile)}
		var q, p, v float64
		switch profile {
		case profTies:
			q = float64(r.Intn(2))
			p = q + float64(1+r.Intn(2))
			v = p + float64(1+r.Intn(2))
		case profDyadic:
			q = quarter(r, 0, 4)
			p = q + []float64{0.25, 0.5, 1, 2}[r.Intn(4)]
			v = p + []float64{0.25, 0.5, 1, 2}[r.Intn(4)]
		default:
			q = r.Float64() * 2
			p = q + 0.1 + r.Float64()*3
			v = p + 0.1 + r.Float64()*4
		}
		if (heavy || r.Intn(4) != 0) && q > 0 {
			e["q"] = M{"b": q}
		}
		hasP := heavy || r.Intn(4) != 0
		if hasP {
			e["p"] = M{"b": p}
		}
		if hasP && (heavy || r.Intn(2) == 0) {
			e["v"] = M{"b": v}
		}
		ec[id] = e
	}
	return ec
}

func genLevels(r *rand.Rand, mp M, ids []string, inc bool, profile string) {
	switch r.Intn(3) {
	case 0:
		nl := 1 + r.Intn(4)
		ths := make([]interface{}, nl)
		for l := 0; l < nl; l++ {
			t := M{}
			for _, id := range ids {
				t[id] = genValue(r, profile, false)
			}
			ths[l] = t
		}
		mp["function"] = "thresholds"
		mp["params"] = M{"thresholds": ths}
	case 1:
		mp["function"] = "idealMultipliedCoefficient"
		if inc {
			mp["params"] = M{"minValue": float64(r.Intn(4)) / 8, "maxValue": 0.5 + float64(r.Intn(5))/8, "coefficient": []float64{0.25, 0.5, 0.3}[r.Intn(3)]}
		} else {
			mp["params"] = M{"minValue": float64(1+r.Intn(3)) / 8, "maxValue": 0.5 + float64(r.Intn(5))/8, "coefficient": []float64{0.5, 0.75, 0.7}[r.Intn(3)]}
		}
	case 2:
		if inc {
			mp["function"] = "idealAdditiveCoefficient"
			mp["params"] = M{"minValue": float64(r.Intn(4)) / 8, "maxValue": 0.5 + float64(r.Intn(5))/8, "coefficient": []float64{0.125, 0.25, 0.3}[r.Intn(3)]}
		} else {
			mp["function"] = "idealSubtractiveCoefficient"
			mp["params"] = M{"minValue": float64(1+r.Intn(3)) / 8, "maxValue": 0.5 + float64(r.Intn(5))/8, "coefficient": []float64{0.125, 0.25, 0.3}[r.Intn(3)]}
		}
	}
}

// genBiasSeq generates the bias entries for the given names, keeping the request inside the domain of the
// properties: lb is a sound lower bound of the number of criteria left (every omission assumed to fire with
// its maximal count, no addition assumed to fire); omission / reversal parameters never exceed it.
func genBiasSeq(r *rand.Rand, seq []string, g *genReq, o genOpts) []interface{} {
	lb := len(g.crits)
	ub := len(g.crits)
	var bs []interface{}
	for _, name := range seq {
		b := genBias(r, name, g, o, &lb, &ub)
		bs = append(bs, b)
	}
	return bs
}

func genBias(r *rand.Rand, name string, g *genReq, o genOpts, lb, ub *int) M {
	p := M{}
	certain := o.allFire
	b := M{"name": name}
	if !o.allFire {
		if r.Intn(5) == 0 {
			b["applyProbability"] = float64(r.Intn(5)) / 4
		}
		if r.Intn(12) == 0 {
			b["disabled"] = true
		}
	}
	ordering := pick(r, orderings)
	if o.noRandom {
		ordering = pick(r, []string{"", "weakest", "strongest"})
	}
	switch name {
	case "criteriaOmission":
		p["ordering"] = ordering
		setSeed(r, p, "randomSeed")
		maxOmit := *lb - 1
		if r.Intn(2) == 0 {
			// explicit max
			mx := 0
			if maxOmit > 0 {
				mx = r.Intn(maxOmit + 1)
			}
			mn := 0
			if mx > 0 {
				mn = r.Intn(mx + 1)
			}
			p["ratio"] = float64(r.Intn(9)) / 8
			if r.Intn(3) == 0 {
				p["ratio"] = decimalRatio(r, *ub)
			}
			if r.Intn(5) == 0 {
				delete(p, "ratio")
			}
			p["min"], p["max"] = mn, mx
			*lb -= mx
		} else {
			// ratio small enough: floor(ub*ratio) <= lb-1
			var ratio float64
			for try := 0; ; try++ {
				ratio = float64(r.Intn(8)) / 8
				if o.profile == profReals && r.Intn(2) == 0 {
					ratio = r.Float64()
				}
				if int(float64(*ub)*ratio) <= maxOmit || try > 20 {
					break
				}
			}
			if int(float64(*ub)*ratio) > maxOmit {
				ratio = 0
			}
			p["ratio"] = ratio
			*lb -= int(float64(*ub) * ratio)
		}
	case "preferenceReversal":
		p["ordering"] = ordering
		setSeed(r, p, "randomSeed")
		p["ratio"] = float64(r.Intn(9)) / 8
		if r.Intn(3) == 0 {
			p["ratio"] = decimalRatio(r, *ub)
		}
		if r.Intn(2) == 0 {
			mn := r.Intn(*lb + 1)
			p["min"] = mn
			p["max"] = mn + r.Intn(3)
			if r.Intn(4) == 0 {
				delete(p, "ratio")
			}
		}
	case "criteriaConcealment":
		setSeed(r, p, "randomSeed")
		if r.Intn(4) != 0 {
			p["newCriterionScaling"] = []float64{0.5, 1, 1.5, 2, -1, -1.5}[r.Intn(6)]
		}
		refProps(r, p, o)
		boundProps(r, p)
		*ub++
		if certain {
			*lb++
		}
	case "criteriaMixing":
		setSeed(r, p, "randomSeed")
		if r.Intn(4) != 0 {
			p["mixingRatio"] = float64(r.Intn(9)) / 8
		}
		refProps(r, p, o)
		*ub++
	case "fatigue":
		setSeed(r, p, "randomSeed")
		if r.Intn(2) == 0 {
			p["function"] = "const"
			p["params"] = M{"value": float64(r.Intn(5)) / 8}
			if r.Intn(4) == 0 {
				p["params"] = M{"value": float64(r.Intn(9)-4) / 8} // a negative constant is a ratio like any other
			}
			if r.Intn(8) == 0 {
				p["params"] = M{} // value defaults to 0
			}
		} else {
			p["function"] = "expFromZero"
			// "any parameters": negative query numbers, slopes and multipliers are legal too
			fp := M{"alpha": 0.03125, "multiplier": float64(1+r.Intn(3)) / 2, "queryNumber": r.Intn(30)}
			if r.Intn(4) == 0 {
				fp = M{"alpha": float64(r.Intn(9)-4) / 16, "multiplier": float64(r.Intn(7)-3) / 2, "queryNumber": r.Intn(16) - 8}
			}
			if r.Intn(4) == 0 { // absent parameters default to 0, i.e. no fatigue
				delete(fp, []string{"alpha", "multiplier", "queryNumber"}[r.Intn(3)])
			}
			p["params"] = fp
		}
		boundProps(r, p)
	case "anchoring":
		n := 1 + r.Intn(3)
		aa := make([]interface{}, n)
		for i := range aa {
			aa[i] = M{"alternative": g.altIds[r.Intn(len(g.altIds))], "coefficient": quarter(r, 1, 8)}
			if o.anchorZeroCoef && r.Intn(3) == 0 {
				aa[i].(M)["coefficient"] = 0.0
				if r.Intn(2) == 0 {
					delete(aa[i].(M), "coefficient") // left out = 0
				}
			}
		}
		p["anchoringAlternatives"] = aa
		p["referencePoints"] = M{"function": []string{"ideal", "nadir"}[r.Intn(2)]}
		fn := func() M {
			switch r.Intn(3) {
			case 0:
				return M{"function": "linear", "params": M{"a": float64(r.Intn(5)) / 8, "b": float64(r.Intn(3)) / 8}}
			case 1:
				if r.Intn(3) == 0 {
					return M{"function": "linear", "params": M{"a": 0.0, "b": -float64(1+r.Intn(3)) / 8}} // a constant, negative
				}
				return M{"function": "linear", "params": M{"a": 0.0, "b": 0.0}}
			}
			return M{"function": "expFromZero", "params": M{"alpha": float64(1+r.Intn(4)) / 4, "multiplier": float64(1+r.Intn(4)) / 4}}
		}
		p["loss"] = fn()
		p["gain"] = fn()
		ap := M{}
		if r.Intn(2) == 0 {
			if r.Intn(3) != 0 {
				ap["applyOnNotConsidered"] = r.Intn(2) == 0
			}
			boundProps(r, ap)
			p["applier"] = M{"function": "inline", "params": ap}
		} else {
			setSeed(r, ap, "randomSeed")
			refProps(r, ap, o)
			boundProps(r, ap)
			p["applier"] = M{"function": "newCriterion", "params": ap}
			*ub++
			if certain {
				*lb++
			}
		}
	}
	b["props"] = p
	return b
}

// decimalRatio: ratios written as decimals or as j/n, whose product with the criteria count hits or barely misses an integer
func decimalRatio(r *rand.Rand, n int) float64 {
	if n > 0 {
		switch r.Intn(4) {
		case 0:
			return float64(r.Intn(n+1)) / float64(n)
		case 1: // j/n cut after ten decimals: the product misses the integer by about 1e-10
			return math.Floor(float64(r.Intn(n+1))/float64(n)*1e10) / 1e10
		}
	}
	return float64(r.Intn(11)) / 10
}

func refProps(r *rand.Rand, p M, o genOpts) {
	t := pick(r, refTypes)
	if o.noRandom && (t == "randomUniform" || t == "randomWeighted") {
		t = "importanceRatio"
	}
	if t != "" {
		if r.Intn(4) == 0 {
			p["ReferenceCriterionType"] = t // the spelling of the README's prose; property names are matched case-insensitively
		} else {
			p["referenceCriterionType"] = t
		}
	}
	if r.Intn(4) != 0 {
		p["newCriterionImportance"] = float64(r.Intn(9)) / 8
	}
	setSeed(r, p, "newCriterionRandomSeed")
}

func boundProps(r *rand.Rand, p M) {
	switch r.Intn(3) {
	case 1:
		p["allowedValuesRangeScaling"] = []float64{0.5, 1, 2}[r.Intn(3)]
		if r.Intn(3) == 0 {
			p["disallowNegativeValues"] = true
		}
	case 2:
		p["disallowNegativeValues"] = true
	}
}

func sortedKeysF(m map[string]float64) []string {
	ks := make([]string, 0, len(m))
	for k := range m {
		ks = append(ks, k)
	}
	sort.Strings(ks)
	return ks
}

func deepCopyM(m M) M {
	b, _ := json.Marshal(m)
	var out M
	json.Unmarshal(b, &out)
	return out
}

// refTypeOf: the configured reference-criterion strategy, under either spelling
func refTypeOf(p M, def string) string {
	if v := strOr(p, "referenceCriterionType", ""); v != "" {
		return v
	}
	return strOr(p, "ReferenceCriterionType", def)
}
