package main

// Reference models for the three heuristics and the aspiration-level series, written from the property
// statements (explicit groups / sequential procedures), plus existence search over the orders the
// statement leaves open (seeded-random search order, random draw policy, ties between weights).

import (
	"math"
	"sort"
)

type rCrit struct {
	id   string
	cost bool
	w    float64
}

type rAlt struct {
	id string
	v  map[string]float64
}

func sgnOf(cost bool) float64 {
	if cost {
		return -1
	}
	return 1
}

func rCritsOf(s *dmpSnap) []rCrit {
	out := make([]rCrit, len(s.Crit))
	for i, c := range s.Crit {
		out[i] = rCrit{id: c.Id, cost: c.Cost, w: s.Params.W[c.Id]}
	}
	return out
}

func rAltsOf(as []altSnap) []rAlt {
	out := make([]rAlt, len(as))
	for i, a := range as {
		out[i] = rAlt{a.Id, a.V}
	}
	return out
}

// ---------------------------------------------------------------------------------------------
// majority

type fragility struct{ hit bool }

func (f *fragility) near(d, scale, band float64) {
	d = math.Abs(d)
	if d > band*0.5 && d < band*2 {
		f.hit = true
	}
}

func refCompare(crits []rCrit, a, b rAlt, fr *fragility) (float64, float64) {
	s1, s2 := 0.0, 0.0
	for _, c := range crits {
		v1, v2 := a.v[c.id]*sgnOf(c.cost), b.v[c.id]*sgnOf(c.cost)
		if fr != nil {
			fr.near(v1-v2, 1, 1e-6)
		}
		if math.Abs(v1-v2) <= 1e-6 {
			continue
		}
		if v1 > v2 {
			s1 += c.w
		} else {
			s2 += c.w
		}
	}
	if fr != nil {
		fr.near(s1-s2, 1, 1e-6)
	}
	return s1, s2
}

type majEntry struct {
	id, cmp string
	val, cv float64
	hasCmp  bool
}

// refMajority plays the tournament over the given search order; decide resolves a draw under the
// "random" policy ("current" or "newer"). Returns the groups best first.
func refMajority(crits []rCrit, order []rAlt, policy string, decide func() string, fr *fragility) [][]majEntry {
	cur := order[0]
	curScore := 0.0
	var groups [][]majEntry
	var tie []majEntry
	for _, x := range order[1:] {
		s1, s2 := refCompare(crits, cur, x, fr)
		newerWins := false
		if math.Abs(s1-s2) <= 1e-6 {
			curScore = s1
			pol := policy
			if pol == "random" {
				pol = decide()
			}
			switch pol {
			case "allow", "":
				tie = append(tie, majEntry{x.id, cur.id, s2, s1, true})
				continue
			case "current":
			case "newer":
				newerWins = true
			}
		} else if s2 < s1 {
			curScore = s1
		} else {
			curScore = s2
			newerWins = true
		}
		if newerWins {
			tie = append(tie, majEntry{cur.id, x.id, s1, s2, true})
			groups = append(groups, tie)
			tie = nil
			cur = x
		} else {
			groups = append(groups, []majEntry{{x.id, cur.id, s2, s1, true}})
		}
	}
	tie = append(tie, majEntry{id: cur.id, val: curScore})
	groups = append(groups, tie)
	var res [][]majEntry
	for i := len(groups) - 1; i >= 0; i-- {
		g := groups[i]
		var r []majEntry
		for j := len(g) - 1; j >= 0; j-- {
			r = append(r, g[j])
		}
		res = append(res, r)
	}
	return res
}

func feq(a, b float64) bool { return math.Abs(a-b) <= 1e-9*(1+math.Abs(a)) }

// majMatches compares reference groups with the response
func majMatches(groups [][]majEntry, out []respEntry) string {
	var flat []majEntry
	links := map[string]map[string]bool{}
	for gi, g := range groups {
		for _, e := range g {
			flat = append(flat, e)
			l := map[string]bool{}
			for _, p := range g {
				if p.id != e.id {
					l[p.id] = true
				}
			}
			if gi+1 < len(groups) {
				for _, p := range groups[gi+1] {
					l[p.id] = true
				}
			}
			links[e.id] = l
		}
	}
	if len(flat) != len(out) {
		return "number of entries"
	}
	for i, e := range flat {
		o := out[i]
		if o.Alternative.Id != e.id {
			return "order of entries"
		}
		cw, _ := o.Evaluation["comparedWith"].(string)
		val, _ := o.Evaluation["value"].(float64)
		cv, _ := o.Evaluation["comparedAlternativeValue"].(float64)
		if e.hasCmp {
			if cw != e.cmp {
				return "comparedWith of " + e.id
			}
			if !feq(val, e.val) || !feq(cv, e.cv) {
				return "scores of " + e.id
			}
		} else if cw != "" {
			return "the undefeated entry names an opponent"
		}
		got := setOf(o.BetterThanOrSameAs)
		if len(got) != len(o.BetterThanOrSameAs) || len(got) != len(links[e.id]) {
			return "links of " + e.id
		}
		for l := range links[e.id] {
			if !got[l] {
				return "links of " + e.id
			}
		}
	}
	return ""
}

func permute(xs []rAlt, f func([]rAlt) bool) bool {
	var rec func(k int) bool
	rec = func(k int) bool {
		if k == len(xs) {
			return f(xs)
		}
		for i := k; i < len(xs); i++ {
			xs[k], xs[i] = xs[i], xs[k]
			if rec(k + 1) {
				xs[k], xs[i] = xs[i], xs[k]
				return true
			}
			xs[k], xs[i] = xs[i], xs[k]
		}
		return false
	}
	return rec(0)
}

// ---------------------------------------------------------------------------------------------
// aspiration levels (C14's statement)

func refSeries(fn string, increasing bool, mn, mx, coef float64) ([]float64, bool) {
	var rs []float64
	const cap = 2000000
	if increasing {
		r := mn
		for r < mx {
			if len(rs) >= cap {
				return rs, false
			}
			rs = append(rs, r)
			if fn == "idealMultipliedCoefficient" {
				r = math.Min((1+r)*(1+coef)-1, 1)
			} else {
				r = math.Min(r+coef, 1)
			}
		}
	} else {
		r := mx
		for r > mn {
			if len(rs) >= cap {
				return rs, false
			}
			rs = append(rs, r)
			if fn == "idealMultipliedCoefficient" {
				r = r * coef
			} else {
				r = math.Max(r-coef, 0)
			}
		}
	}
	return rs, true
}

func refLevelsFromSeries(s *dmpSnap, rs []float64) []map[string]float64 {
	var out []map[string]float64
	type lh struct{ lo, hi float64 }
	rg := map[string]lh{}
	for _, c := range s.Crit {
		lo, hi := s.rng(c)
		rg[c.Id] = lh{lo, hi}
	}
	for _, r := range rs {
		m := map[string]float64{}
		for _, c := range s.Crit {
			x := rg[c.Id]
			if c.Cost {
				m[c.Id] = x.hi - (x.hi-x.lo)*r
			} else {
				m[c.Id] = x.lo + (x.hi-x.lo)*r
			}
		}
		out = append(out, m)
	}
	return out
}

// refLevels: the aspiration levels the heuristic walks through, from the parameters Evaluate received
func refLevels(s *dmpSnap, increasing bool) ([]map[string]float64, bool) {
	lv := s.Params.Levels
	if lv == nil {
		return nil, false
	}
	if lv.Fn == "thresholds" {
		return lv.Thresholds, true
	}
	rs, ok := refSeries(lv.Fn, increasing, lv.MinValue, lv.MaxValue, lv.Coefficient)
	if !ok {
		return nil, false
	}
	return refLevelsFromSeries(s, rs), true
}

// ---------------------------------------------------------------------------------------------
// aspect elimination

type aeEntry struct {
	id   string
	idx  int
	crit string
	thr  float64
	surv bool
}

func below(v, t float64, cost bool, fr *fragility) bool {
	sv, st := v*sgnOf(cost), t*sgnOf(cost)
	if fr != nil {
		d := math.Abs(sv - st)
		if d != 0 && d < 1e-9*(1+math.Abs(st)) {
			fr.hit = true
		}
	}
	return sv < st
}

// refAspect: levels -> criteria (given order, heaviest first) -> alternatives in order; stop when one is left
func refAspect(cs []rCrit, order []rAlt, levels []map[string]float64, fr *fragility) []aeEntry {
	left := append([]rAlt{}, order...)
	var elim []aeEntry
	last := -1
	if len(left) > 1 {
	outer:
		for li, t := range levels {
			last = li
			for _, c := range cs {
				snapshot := append([]rAlt{}, left...)
				for _, a := range snapshot {
					if below(a.v[c.id], t[c.id], c.cost, fr) {
						for k := range left {
							if left[k].id == a.id {
								left = append(left[:k:k], left[k+1:]...)
								break
							}
						}
						elim = append(elim, aeEntry{a.id, li, c.id, t[c.id], false})
					}
					if len(left) <= 1 {
						break outer
					}
				}
			}
		}
	}
	var res []aeEntry
	for _, a := range left {
		res = append(res, aeEntry{id: a.id, idx: last + 1, surv: true})
	}
	for i := len(elim) - 1; i >= 0; i-- {
		res = append(res, elim[i])
	}
	return res
}

func aeMatches(ref []aeEntry, out []respEntry) string {
	if len(ref) != len(out) {
		return "number of entries"
	}
	for i, e := range ref {
		o := out[i]
		if o.Alternative.Id != e.id {
			return "order of entries"
		}
		idx, ok := o.Evaluation["thresholdsIndex"].(float64)
		if !ok || int(idx) != e.idx {
			return "thresholdsIndex of " + e.id
		}
		th, _ := o.Evaluation["notSatisfiedThreshold"].(map[string]interface{})
		if e.surv {
			if len(th) != 0 {
				return "survivor " + e.id + " reports a failed threshold"
			}
		} else {
			x, ok := th[e.crit].(float64)
			if len(th) != 1 || !ok || !feq(x, e.thr) {
				return "notSatisfiedThreshold of " + e.id
			}
		}
		var want []string
		if i+1 < len(ref) {
			want = []string{ref[i+1].id}
		}
		if len(o.BetterThanOrSameAs) != len(want) || (len(want) == 1 && o.BetterThanOrSameAs[0] != want[0]) {
			return "links of " + e.id
		}
	}
	return ""
}

// critOrders enumerates the criteria orders that are descending by weight (all orders within ties)
func critOrders(cs []rCrit, f func([]rCrit) bool) bool {
	sorted := append([]rCrit{}, cs...)
	sort.SliceStable(sorted, func(i, j int) bool { return sorted[i].w > sorted[j].w })
	var rec func(start int) bool
	rec = func(start int) bool {
		if start >= len(sorted) {
			return f(sorted)
		}
		end := start + 1
		for end < len(sorted) && sorted[end].w == sorted[start].w {
			end++
		}
		block := sorted[start:end]
		var perm func(k int) bool
		perm = func(k int) bool {
			if k == len(block) {
				return rec(end)
			}
			for i := k; i < len(block); i++ {
				block[k], block[i] = block[i], block[k]
				if perm(k + 1) {
					block[k], block[i] = block[i], block[k]
					return true
				}
				block[k], block[i] = block[i], block[k]
			}
			return false
		}
		return perm(0)
	}
	return rec(0)
}

// ---------------------------------------------------------------------------------------------
// satisfaction

type satEntry struct {
	id  string
	idx int
	thr map[string]float64
}

func refSatisfaction(crits []rCrit, order []rAlt, s *dmpSnap, levels []map[string]float64, fr *fragility) []satEntry {
	left := append([]rAlt{}, order...)
	var res []satEntry
	last := -1
	for li, t := range levels {
		last = li
		var keep []rAlt
		for _, a := range left {
			ok := true
			for _, c := range crits {
				if below(a.v[c.id], t[c.id], c.cost, fr) {
					ok = false
				}
			}
			if ok {
				res = append(res, satEntry{a.id, li, t})
			} else {
				keep = append(keep, a)
			}
		}
		left = keep
		if len(left) == 0 {
			break
		}
	}
	if len(left) > 0 {
		worst := map[string]float64{}
		for _, c := range s.Crit {
			lo, hi := s.rng(c)
			if c.Cost {
				worst[c.Id] = hi
			} else {
				worst[c.Id] = lo
			}
		}
		for _, a := range left {
			res = append(res, satEntry{a.id, last + 1, worst})
		}
	}
	return res
}

func satMatches(ref []satEntry, crits []rCrit, out []respEntry) string {
	if len(ref) != len(out) {
		return "number of entries"
	}
	for i, e := range ref {
		o := out[i]
		if o.Alternative.Id != e.id {
			return "order of entries"
		}
		idx, ok := o.Evaluation["thresholdsIndex"].(float64)
		if !ok || int(idx) != e.idx {
			return "thresholdsIndex of " + e.id
		}
		th, _ := o.Evaluation["satisfiedThresholds"].(map[string]interface{})
		for _, c := range crits {
			x, ok := th[c.id].(float64)
			if !ok || !feq(x, e.thr[c.id]) {
				return "satisfiedThresholds of " + e.id
			}
		}
		var want []string
		if i+1 < len(ref) {
			want = []string{ref[i+1].id}
		}
		if len(o.BetterThanOrSameAs) != len(want) || (len(want) == 1 && o.BetterThanOrSameAs[0] != want[0]) {
			return "links of " + e.id
		}
	}
	return ""
}

// searchOrder: current choice first (taken from all known alternatives), then the considered ones without it
func searchOrder(s *dmpSnap) []rAlt {
	cons := rAltsOf(s.Cons)
	cc := s.Params.CurrentChoice
	if cc == "" {
		return cons
	}
	var res []rAlt
	for _, a := range rAltsOf(s.all()) {
		if a.id == cc {
			res = append(res, a)
			break
		}
	}
	for _, a := range cons {
		if a.id != cc {
			res = append(res, a)
		}
	}
	return res
}
