package main

// C11 majority tournament, C12 aspect elimination, C13 satisfaction: reference-model monitors on the
// data Evaluate received; where the statement leaves an order open (seeded-random search order, random
// draw policy, ties between weights) the response must equal the reference for SOME admissible order.

import (
	"fmt"
	"strings"
)

func weightsCover(s *dmpSnap) bool {
	for _, c := range s.Crit {
		if _, ok := s.Params.W[c.Id]; !ok {
			return false
		}
	}
	return true
}

func groupShape(groups [][]majEntry) string {
	var sb strings.Builder
	for _, g := range groups {
		fmt.Fprintf(&sb, "%d.", len(g))
	}
	return sb.String()
}

// configuredParams: what the request configures beside the criteria-related parameters (draw policy, current
// choice, seed, ordering flag, level function and its coefficients) must be what the method is finally run with
func configuredParams(g *genReq, s *dmpSnap) string {
	mp, _ := g.M["methodParameters"].(M)
	p := s.Params
	// the declared valuesRange of a request criterion is the range in force when the method runs
	for _, cs := range g.crits {
		if cr, ok := s.crit(cs.id); ok && (cr.HasRng != cs.hasRng || (cs.hasRng && (cr.Lo != cs.lo || cr.Hi != cs.hi))) {
			return fmt.Sprintf("criterion %s declares the range %v [%v,%v]; the range in force when the method runs is %v [%v,%v]", cs.id, cs.hasRng, cs.lo, cs.hi, cr.HasRng, cr.Lo, cr.Hi)
		}
	}
	// the considered alternatives reach the method in the order of choseToMake (the fixed search order)
	if fmt.Sprint(idsOfAlts(s.Cons)) != fmt.Sprint(g.chose) {
		return fmt.Sprintf("the considered alternatives reach the method as %v, choseToMake lists them as %v", idsOfAlts(s.Cons), g.chose)
	}
	if want := strOr(mp, "drawResolution", ""); g.method == "majorityHeuristic" && p.Draw != want {
		return fmt.Sprintf("draw policy in force is '%s', the request configures '%s'", p.Draw, want)
	}
	if g.method == "majorityHeuristic" || g.method == "satisfactionHeuristic" {
		if want := strOr(mp, "currentChoice", ""); p.CurrentChoice != want {
			return fmt.Sprintf("current choice in force is '%s', the request configures '%s'", p.CurrentChoice, want)
		}
	}
	if want := int64(numOr(mp, "randomSeed", 0)); p.Seed != want {
		return fmt.Sprintf("random seed in force is %d, the request configures %d", p.Seed, want)
	}
	if want := boolOr(mp, "randomAlternativesOrdering", false); p.RandomOrder != want {
		return fmt.Sprintf("randomAlternativesOrdering in force is %v, the request configures %v", p.RandomOrder, want)
	}
	if g.method != "majorityHeuristic" && p.Levels != nil {
		if want := strOr(mp, "function", ""); p.Levels.Fn != want {
			return fmt.Sprintf("level function in force is '%s', the request configures '%s'", p.Levels.Fn, want)
		}
		if p.Levels.Fn != "thresholds" {
			lp := subM(mp, "params")
			if p.Levels.Coefficient != numOr(lp, "coefficient", 0) || p.Levels.MinValue != numOr(lp, "minValue", 0) || p.Levels.MaxValue != numOr(lp, "maxValue", 0) {
				return fmt.Sprintf("level parameters in force are (%v, %v, %v), the request configures %v", p.Levels.Coefficient, p.Levels.MinValue, p.Levels.MaxValue, lp)
			}
		}
	}
	return ""
}

// addedRangesKept: a criterion added by a bias reaches the method with the attributes it was handed on with
func addedRangesKept(tr *trace) string {
	if tr == nil || tr.Eval == nil {
		return ""
	}
	first := map[string]critSnap{}
	for _, e := range tr.Bias {
		for _, cr := range e.Out.Crit {
			if _, seen := first[cr.Id]; !seen {
				if _, inIn := e.In.crit(cr.Id); !inIn {
					first[cr.Id] = cr
				}
			}
		}
	}
	for _, cr := range tr.Eval.Before.Crit {
		if f, ok := first[cr.Id]; ok && f != cr {
			return fmt.Sprintf("criterion '%s' was added as %+v but reaches the method as %+v", cr.Id, f, cr)
		}
	}
	return ""
}

// warmUpSibling: in a fresh process the first use of a level function may come from the other heuristic
func warmUpSibling(c *caseCtx, method string) {
	if c.idx%8 != 0 {
		return
	}
	g := genRequest(c.rng, genOpts{method: method, minAlt: 2, maxAlt: 3, minCrit: 1, maxCrit: 2})
	decide(g.body(), false)
}

func c11Check(c *caseCtx, g *genReq, d decision, tag string) {
	c.count("evaluations", 1)
	if !d.OK {
		c.count("rejected", 1)
		if methodFailed(d) {
			// the generated request is in the method's domain: failing inside Evaluate is not "ranking the alternatives"
			c.violate("method-failed:"+errClass(d.Err), "the method fails on an in-domain request instead of ranking: "+d.Err, M{"request": g.M})
		}
		return
	}
	ev := d.Trace.Eval
	if ev == nil {
		// the request was accepted and answered, but the registered method never evaluated anything: whatever the answer
		// is, it is not the outcome of the procedure the property describes
		c.violate("method-not-evaluated", "the request is answered although the method's Evaluate never ran", M{"request": g.M, "response": d.View})
		return
	}
	if !ev.Before.Params.OK {
		c.inconclusive("no readable evaluate event")
		return
	}
	s := &ev.Before
	if msg := configuredParams(g, s); msg != "" {
		c.violate("configured-parameter-lost", msg, M{"request": g.M})
		return
	}
	if msg := addedRangesKept(d.Trace); msg != "" {
		c.violate("configured-parameter-lost", msg, M{"request": g.M})
		return
	}
	if msg := checkReceived(d); msg != "" {
		c.violate("request-not-as-sent", "the heuristic works on other data than the request carries: "+msg, M{"request": g.M})
		return
	}
	if !weightsCover(s) {
		c.violate("params-incoherent", "a current criterion has no weight", M{"request": g.M})
		return
	}
	crits := rCritsOf(s)
	order := searchOrder(s)
	if len(order) == 0 {
		return
	}
	// fragility over all pairs that could meet
	fr := &fragility{}
	for i := range order {
		for j := range order {
			if i != j {
				refCompare(crits, order[i], order[j], fr)
			}
		}
	}
	if fr.hit {
		c.fragile()
		return
	}
	policy := s.Params.Draw
	out := d.View.Result
	randomOrder, randomPolicy := s.Params.RandomOrder, policy == "random"
	switch policy {
	case "", "allow", "current", "newer", "random":
	default:
		c.count("outside_domain", 1)
		return
	}
	var matchedGroups [][]majEntry
	if !randomOrder && !randomPolicy {
		groups := refMajority(crits, order, policy, nil, nil)
		if msg := majMatches(groups, out); msg != "" {
			c.violate("majority-reference", "response differs from the sequential tournament: "+msg,
				M{"request": g.M, "evaluated_on": s, "expected_groups": fmt.Sprint(groups), "result": out})
			return
		}
		matchedGroups = groups
		c.count("exact_reference", 1)
	} else {
		if randomOrder && len(order) > 6 {
			c.count("skipped_large_random", 1)
			return
		}
		fixed := 0
		if s.Params.CurrentChoice != "" {
			fixed = 1
		}
		rest := append([]rAlt{}, order[fixed:]...)
		try := func(ord []rAlt) bool {
			masks := 1
			if randomPolicy {
				masks = 1 << uint(len(ord)-1)
			}
			for mask := 0; mask < masks; mask++ {
				bit := 0
				dec := func() string {
					b := (mask >> uint(bit)) & 1
					bit++
					if b == 1 {
						return "newer"
					}
					return "current"
				}
				groups := refMajority(crits, ord, policy, dec, nil)
				if majMatches(groups, out) == "" {
					matchedGroups = groups
					return true
				}
			}
			return false
		}
		found := false
		if randomOrder {
			found = permute(rest, func(p []rAlt) bool {
				return try(append(append([]rAlt{}, order[:fixed]...), p...))
			})
		} else {
			found = try(order)
		}
		if !found {
			c.violate("majority-transcript", "no search order (current choice first) and draw resolution reproduces the response as a sequential tournament",
				M{"request": g.M, "evaluated_on": s, "result": out})
			return
		}
		c.count("existence_reference", 1)
	}
	if len(out) >= 3 {
		c.count("nontrivial", 1)
		cc := "none"
		if s.Params.CurrentChoice != "" {
			cc = "cur"
		}
		c.distinct(fmt.Sprintf("%s|%s|%v|%s|%s", policy, cc, randomOrder, groupShape(matchedGroups), tag))
	}
	if c.idx%1777 == 0 {
		c.sample(M{"request": g.M, "result": out})
	}
}

func c11Shapes(c *caseCtx) {
	g, seq, _, _ := majShapeCase(c.idx)
	c11Check(c, g, decide(g.body(), true), fmt.Sprint(seq))
}

func c11Sampled(c *caseCtx) {
	o := genOpts{method: "majorityHeuristic", minAlt: 1, maxAlt: 6, minCrit: 1, maxCrit: 4, nBiases: c.idx % 3, negValues: c.rng.Intn(3) == 0, caseCrit: true, zeroW: true, dupChosen: true}
	onlyCurrent := c.rng.Intn(30) == 0
	if c.rng.Intn(2) == 0 {
		o.profile = profTies
	}
	if c.rng.Intn(10) == 0 {
		o.fixedOrder, o.minAlt, o.maxAlt = true, 13, 24
	}
	if c.rng.Intn(8) == 0 {
		// prices around 2.45e6 that differ by 1..3, weights around 1.2e6: differences far above the 1e-6 tolerance
		o.bigNumbers, o.profile, o.noRange = true, profTies, true
	}
	if c.rng.Intn(4) == 0 {
		// weights 0.1 .. 0.5: score sums that are equal mathematically but not bit-for-bit (0.1+0.2 vs 0.3) are draws
		o.decimalW, o.minCrit, o.maxCrit, o.profile = true, 3, 5, profTies
	}
	g := genRequest(c.rng, o)
	if onlyCurrent {
		// nothing is chosen, but there is a current choice: it is the whole (undefeated) ranking
		g.M["choseToMake"] = []interface{}{}
		g.M["methodParameters"].(M)["currentChoice"] = g.altIds[c.rng.Intn(len(g.altIds))]
		g.chose = nil
		delete(g.M, "biases")
		c.count("current_choice_only", 1)
	}
	c11Check(c, g, decide(g.body(), true), "")
}

// ---------------------------------------------------------------------------------------------
// C12

func levelFragile(s *dmpSnap, levels []map[string]float64) bool {
	if s.Params.Levels != nil && s.Params.Levels.Fn == "thresholds" {
		return false // explicit thresholds and values are compared as given: nothing is computed, nothing is fragile
	}
	fr := &fragility{}
	for _, t := range levels {
		for _, cr := range s.Crit {
			for _, a := range s.all() {
				below(a.V[cr.Id], t[cr.Id], cr.Cost, fr)
			}
		}
	}
	return fr.hit
}

func c12Check(c *caseCtx, g *genReq, d decision) {
	c.count("evaluations", 1)
	if !d.OK {
		c.count("rejected", 1)
		if methodFailed(d) {
			// the generated request is in the method's domain: failing inside Evaluate is not "ranking the alternatives"
			c.violate("method-failed:"+errClass(d.Err), "the method fails on an in-domain request instead of ranking: "+d.Err, M{"request": g.M})
		}
		return
	}
	ev := d.Trace.Eval
	if ev == nil {
		// the request was accepted and answered, but the registered method never evaluated anything: whatever the answer
		// is, it is not the outcome of the procedure the property describes
		c.violate("method-not-evaluated", "the request is answered although the method's Evaluate never ran", M{"request": g.M, "response": d.View})
		return
	}
	if !ev.Before.Params.OK {
		c.inconclusive("no readable evaluate event")
		return
	}
	s := &ev.Before
	if msg := configuredParams(g, s); msg != "" {
		c.violate("configured-parameter-lost", msg, M{"request": g.M})
		return
	}
	if msg := addedRangesKept(d.Trace); msg != "" {
		c.violate("configured-parameter-lost", msg, M{"request": g.M})
		return
	}
	if msg := checkReceived(d); msg != "" {
		c.violate("request-not-as-sent", "the heuristic works on other data than the request carries: "+msg, M{"request": g.M})
		return
	}
	if !weightsCover(s) {
		c.violate("params-incoherent", "a current criterion has no weight", M{"request": g.M})
		return
	}
	levels, ok := refLevels(s, true)
	if !ok {
		c.count("outside_domain", 1)
		return
	}
	for _, t := range levels {
		for _, cr := range s.Crit {
			if _, has := t[cr.Id]; !has {
				c.violate("params-incoherent", "a level has no threshold for criterion "+cr.Id, M{"request": g.M, "levels": levels})
				return
			}
		}
	}
	if levelFragile(s, levels) {
		c.fragile()
		return
	}
	crits := rCritsOf(s)
	cons := rAltsOf(s.Cons)
	out := d.View.Result
	if s.Params.RandomOrder && len(cons) > 6 {
		c.count("skipped_large_random", 1)
		return
	}
	var matched []aeEntry
	tryAlts := func(cs []rCrit) bool {
		if s.Params.RandomOrder {
			return permute(append([]rAlt{}, cons...), func(p []rAlt) bool {
				r := refAspect(cs, p, levels, nil)
				if aeMatches(r, out) == "" {
					matched = r
					return true
				}
				return false
			})
		}
		r := refAspect(cs, cons, levels, nil)
		if aeMatches(r, out) == "" {
			matched = r
			return true
		}
		return false
	}
	distinctW := true
	for i := range crits {
		for j := range crits {
			if i != j && crits[i].w == crits[j].w {
				distinctW = false
			}
		}
	}
	found := critOrders(crits, tryAlts)
	if !found {
		msg := "response differs from the sequential elimination procedure"
		var exp interface{}
		if distinctW && !s.Params.RandomOrder {
			critOrders(crits, func(cs []rCrit) bool {
				r := refAspect(cs, cons, levels, nil)
				msg += ": " + aeMatches(r, out)
				exp = fmt.Sprint(r)
				return true
			})
		} else {
			msg += " for every admissible order of tied weights / shuffled alternatives"
		}
		c.violate("aspect-reference", msg, M{"request": g.M, "evaluated_on": s, "levels": levels, "expected": exp, "result": out})
		return
	}
	if distinctW && !s.Params.RandomOrder {
		c.count("exact_reference", 1)
	} else {
		c.count("existence_reference", 1)
	}
	if len(out) >= 2 {
		elim, sameCheck := 0, 0
		for i, e := range matched {
			if !e.surv {
				elim++
				if i > 0 && !matched[i-1].surv && matched[i-1].idx == e.idx && matched[i-1].crit == e.crit {
					sameCheck++
				}
			}
		}
		if elim > 0 {
			c.count("nontrivial", 1)
			var sb strings.Builder
			for _, e := range matched {
				fmt.Fprintf(&sb, "%d%s.", e.idx, e.crit)
			}
			c.distinct(fmt.Sprintf("%d|%s|%s", len(out), s.Params.Levels.Fn, sb.String()))
		}
		if sameCheck > 0 {
			c.count("two_failed_same_check", 1)
		}
		if elim == 0 {
			c.count("nobody_eliminated", 1)
		}
	}
	if c.idx%1777 == 0 {
		c.sample(M{"request": g.M, "levels": levels, "result": out})
	}
}

func c12Sampled(c *caseCtx) {
	o := genOpts{method: "aspectEliminationHeuristic", minAlt: 1, maxAlt: 7, minCrit: 1, maxCrit: 5, nBiases: c.idx % 3, distinctW: c.rng.Intn(4) != 0, negValues: c.rng.Intn(4) == 0, caseCrit: true, zeroW: true, dupChosen: true}
	if c.rng.Intn(2) == 0 {
		o.profile = profTies
	}
	if c.rng.Intn(3) == 0 {
		o.maxAlt = 6
	} else {
		o.fixedOrder = true
	}
	if c.rng.Intn(8) == 0 {
		o.nearTiedW, o.distinctW, o.minCrit = true, false, 2 // distinct weights 1e-7 apart: still "heaviest first"
	}
	if o.fixedOrder && c.rng.Intn(6) == 0 {
		o.minAlt, o.maxAlt = 13, 24 // sorting / copying strategies change above a dozen elements
	}
	warmUpSibling(c, "satisfactionHeuristic")
	g := genRequest(c.rng, o)
	nearThreshold(c, g)
	c12Check(c, g, decide(g.body(), true))
}

// nearThreshold: with explicit thresholds, now and then an alternative misses / meets a threshold by 3e-10
func nearThreshold(c *caseCtx, g *genReq) {
	mp := g.M["methodParameters"].(M)
	if mp["function"] != "thresholds" || c.rng.Intn(4) != 0 || g.M["biases"] != nil {
		return
	}
	ths := mp["params"].(M)["thresholds"].([]interface{})
	t := ths[c.rng.Intn(len(ths))].(M)
	a := g.M["knownAlternatives"].([]interface{})[c.rng.Intn(len(g.altIds))].(M)["criteria"].(M)
	for _, cs := range g.crits {
		if c.rng.Intn(2) == 0 {
			a[cs.id] = t[cs.id].(float64) + []float64{-3e-10, 3e-10}[c.rng.Intn(2)]
		}
	}
}

// ---------------------------------------------------------------------------------------------
// C13

func c13Check(c *caseCtx, g *genReq, d decision) {
	c.count("evaluations", 1)
	if !d.OK {
		c.count("rejected", 1)
		if methodFailed(d) {
			// the generated request is in the method's domain: failing inside Evaluate is not "ranking the alternatives"
			c.violate("method-failed:"+errClass(d.Err), "the method fails on an in-domain request instead of ranking: "+d.Err, M{"request": g.M})
		}
		return
	}
	ev := d.Trace.Eval
	if ev == nil {
		// the request was accepted and answered, but the registered method never evaluated anything: whatever the answer
		// is, it is not the outcome of the procedure the property describes
		c.violate("method-not-evaluated", "the request is answered although the method's Evaluate never ran", M{"request": g.M, "response": d.View})
		return
	}
	if !ev.Before.Params.OK {
		c.inconclusive("no readable evaluate event")
		return
	}
	s := &ev.Before
	if msg := configuredParams(g, s); msg != "" {
		c.violate("configured-parameter-lost", msg, M{"request": g.M})
		return
	}
	if msg := addedRangesKept(d.Trace); msg != "" {
		c.violate("configured-parameter-lost", msg, M{"request": g.M})
		return
	}
	if msg := checkReceived(d); msg != "" {
		c.violate("request-not-as-sent", "the heuristic works on other data than the request carries: "+msg, M{"request": g.M})
		return
	}
	levels, ok := refLevels(s, false)
	if !ok {
		c.count("outside_domain", 1)
		return
	}
	for _, t := range levels {
		for _, cr := range s.Crit {
			if _, has := t[cr.Id]; !has {
				c.violate("params-incoherent", "a level has no threshold for criterion "+cr.Id, M{"request": g.M, "levels": levels})
				return
			}
		}
	}
	if levelFragile(s, levels) {
		c.fragile()
		return
	}
	crits := rCritsOf(s)
	order := searchOrder(s)
	out := d.View.Result
	var matched []satEntry
	found := false
	if s.Params.RandomOrder {
		if len(order) > 7 {
			c.count("skipped_large_random", 1)
			return
		}
		fixed := 0
		if s.Params.CurrentChoice != "" {
			fixed = 1
		}
		found = permute(append([]rAlt{}, order[fixed:]...), func(p []rAlt) bool {
			r := refSatisfaction(crits, append(append([]rAlt{}, order[:fixed]...), p...), s, levels, nil)
			if satMatches(r, crits, out) == "" {
				matched = r
				return true
			}
			return false
		})
		if found {
			c.count("existence_reference", 1)
		}
	} else {
		r := refSatisfaction(crits, order, s, levels, nil)
		msg := satMatches(r, crits, out)
		found = msg == ""
		matched = r
		if found {
			c.count("exact_reference", 1)
		} else {
			c.violate("satisfaction-reference", "response differs from the sequential satisfaction procedure: "+msg,
				M{"request": g.M, "evaluated_on": s, "levels": levels, "expected": fmt.Sprint(r), "result": out})
			return
		}
	}
	if !found {
		c.violate("satisfaction-reference", "no search order (current choice first) reproduces the response", M{"request": g.M, "evaluated_on": s, "levels": levels, "result": out})
		return
	}
	if len(out) >= 2 {
		c.count("nontrivial", 1)
		var sb strings.Builder
		left := 0
		for _, e := range matched {
			fmt.Fprintf(&sb, "%d.", e.idx)
			if e.idx >= len(levels) {
				left++
			}
		}
		if left > 0 {
			c.count("with_leftovers", 1)
		}
		cc := "none"
		if s.Params.CurrentChoice != "" {
			cc = currentKind(g)
		}
		if cc == "considered" {
			c.count("current_from_considered", 1)
		}
		c.distinct(fmt.Sprintf("%s|%s|%d|%s", s.Params.Levels.Fn, cc, len(levels), sb.String()))
	}
	if c.idx%1777 == 0 {
		c.sample(M{"request": g.M, "levels": levels, "result": out})
	}
}

func c13Sampled(c *caseCtx) {
	o := genOpts{method: "satisfactionHeuristic", minAlt: 1, maxAlt: 7, minCrit: 1, maxCrit: 5, nBiases: c.idx % 3, negValues: c.rng.Intn(4) == 0, caseCrit: true, dupChosen: true}
	if c.rng.Intn(2) == 0 {
		o.profile = profTies
	}
	if c.rng.Intn(3) != 0 {
		o.fixedOrder = true
	}
	if o.fixedOrder && c.rng.Intn(6) == 0 {
		o.minAlt, o.maxAlt, o.profile = 13, 24, profTies // many alternatives accepted at the same level
	}
	warmUpSibling(c, "aspectEliminationHeuristic")
	g := genRequest(c.rng, o)
	nearThreshold(c, g)
	c13Check(c, g, decide(g.body(), true))
}

const heurAssume = "reference = the sequential procedure of the property statement evaluated on the data the decorator saw entering Evaluate; comparisons with a non-zero " +
	"margin below 1e-9 (thresholds) or within a factor 2 of the 1e-6 tie tolerance (majority) make a case fragile (skipped, counted)"

func init() {
	register(&propDef{
		id: "C11",
		rule: "all one-criterion tournament outcome sequences (n<=7) x 5 draw policies x 3 currentChoice kinds (exhaustive stream) + sampled multi-criteria problems (gain/cost, " +
			"ties/dyadic/reals, 0..2 biases, fixed and seeded-random order). Fixed order and non-random policy: the response must equal the reference tournament exactly " +
			"(order, groups, links, comparedWith, both scores); otherwise it must equal the reference for some search order with the current choice first and some " +
			"current/newer resolution of every draw (existence search, <=6 alternatives). Non-trivial = >=3 entries; distinct = (policy, currentChoice given, random order, group sizes, shape tag).",
		assumptions: []string{heurAssume},
		streams: []*stream{
			{name: "shapes", n: func(string) int { return majShapeCount() }, unit: 2800, run: c11Shapes, exhaustive: true,
				note: "all outcome sequences of a one-criterion tournament, n<=7, x 5 policies x 3 currentChoice kinds"},
			{name: "sampled-service", n: tierN(5000, 80000), unit: 2500, run: c11Sampled, service: true,
				note: "the same generator and oracle as the stream named in front of the dash, but every request goes through decideHandler of main.go in-process (gin binding, the handler's own request object) after a history of 1..3 unrelated requests (accepted and rejected)"},
			{name: "sampled", n: tierN(30000, 900000), unit: 3000, run: c11Sampled, floors: map[string]int64{"exact_reference": 10000, "existence_reference": 5000}},
		},
	})
	register(&propDef{
		id: "C12",
		rule: "aspectEliminationHeuristic requests with 1..7 alternatives, 1..5 criteria, gain/cost, the three level sources, 0..2 biases, fixed / seeded-random order, distinct " +
			"and tied weights. The response must equal the sequential reference (levels -> criteria heaviest first -> alternatives; stop at one left; survivors first, " +
			"eliminated in reverse order with the failed level/criterion/threshold) - exactly for distinct weights and fixed order, otherwise for some admissible " +
			"order of tied weights / shuffled alternatives. Non-trivial = at least one elimination; distinct = (#entries, level source, (level,criterion) per entry).",
		assumptions: []string{heurAssume},
		streams: []*stream{
			{name: "sampled-service", n: tierN(5000, 80000), unit: 2500, run: c12Sampled, service: true,
				note: "the same generator and oracle as the stream named in front of the dash, but every request goes through decideHandler of main.go in-process (gin binding, the handler's own request object) after a history of 1..3 unrelated requests (accepted and rejected)"},
			{name: "sampled", n: tierN(36000, 800000), unit: 3000, run: c12Sampled,
				floors: map[string]int64{"exact_reference": 10000, "existence_reference": 3000, "two_failed_same_check": 500, "nobody_eliminated": 100}},
		},
	})
	register(&propDef{
		id: "C13",
		rule: "satisfactionHeuristic requests with 1..7 alternatives, 1..5 criteria, gain/cost, the three level sources, currentChoice absent / considered / known-only, 0..2 " +
			"biases, fixed / seeded-random order. The response must equal the sequential reference (per level accept in search order everything meeting every threshold; " +
			"leftovers get the index after the last level and the worst value of each range over all known alternatives) - exactly for fixed order, for some order with " +
			"the current choice first otherwise. Non-trivial = >=2 entries; distinct = (level source, currentChoice kind, #levels, acceptance indices).",
		assumptions: []string{heurAssume},
		streams: []*stream{
			{name: "sampled-service", n: tierN(5000, 80000), unit: 2500, run: c13Sampled, service: true,
				note: "the same generator and oracle as the stream named in front of the dash, but every request goes through decideHandler of main.go in-process (gin binding, the handler's own request object) after a history of 1..3 unrelated requests (accepted and rejected)"},
			{name: "sampled", n: tierN(36000, 800000), unit: 3000, run: c13Sampled,
				floors: map[string]int64{"exact_reference": 10000, "existence_reference": 3000, "with_leftovers": 1000, "current_from_considered": 1000}},
		},
	})
}
