package main

// C03 — utility methods report the value of their defining formula.
// Reference formulas are applied to the very data Evaluate received (decorator snapshot), so the check
// is valid after any bias sequence.

import (
	"fmt"
	"math"
	"sort"
	"strings"
)

func roundAPI(x float64) float64 { return math.Round(x*1e8) / 1e8 }

// refWeightedSum: sum of weight x value, value negated for cost criteria
func refWeightedSum(s *dmpSnap, a altSnap) (weighted, unweighted float64, ok bool) {
	for _, cr := range s.Crit {
		w, has := s.Params.W[cr.Id]
		if !has {
			return 0, 0, false
		}
		v := a.V[cr.Id]
		if cr.Cost {
			v = -v
		}
		weighted += w * v
		unweighted += v
	}
	return weighted, unweighted, true
}

func refOWA(s *dmpSnap, a altSnap) (float64, bool) {
	ws := make([]float64, 0, len(s.Params.W))
	for _, w := range s.Params.W {
		ws = append(ws, w)
	}
	vs := make([]float64, 0, len(a.V))
	for _, v := range a.V {
		vs = append(vs, v)
	}
	if len(ws) != len(vs) {
		return 0, false
	}
	sort.Float64s(ws)
	sort.Float64s(vs)
	t := 0.0
	for i := range ws {
		t += ws[i] * vs[i]
	}
	return t, true
}

type kv struct {
	k string
	v float64
}

// refChoquet: sum over ascending values of (v(k) - v(k-1)) x capacity({(k)..(n)}); values within 1e-5 of the
// lowest member of a group are one group. fragile is set when a gap lies in the ambiguous band.
func refChoquet(cap map[string]float64, a altSnap) (val float64, fragile bool, ok bool) {
	vs := make([]kv, 0, len(a.V))
	for k, v := range a.V {
		vs = append(vs, kv{k, v})
	}
	sort.Slice(vs, func(i, j int) bool {
		if vs[i].v != vs[j].v {
			return vs[i].v < vs[j].v
		}
		return vs[i].k < vs[j].k
	})
	prev := 0.0
	for i := 0; i < len(vs); {
		j := i + 1
		for j < len(vs) && math.Abs(vs[j].v-vs[i].v) <= 1e-5 {
			j++
		}
		for x := i + 1; x < len(vs); x++ {
			gap := vs[x].v - vs[i].v
			if gap > 0.99e-5 && gap < 1.01e-5 {
				fragile = true
			}
		}
		ids := make([]string, 0, len(vs)-i)
		for _, x := range vs[i:] {
			ids = append(ids, x.k)
		}
		sort.Strings(ids)
		mu, has := cap[strings.Join(ids, ",")]
		if !has {
			return 0, fragile, false
		}
		val += mu * (vs[i].v - prev)
		prev = vs[i].v
		i = j
	}
	return val, fragile, true
}

func apiClose(reported, ref float64) bool {
	return math.Abs(reported-ref) <= 0.5000001e-8+1e-12*math.Abs(ref)
}

func c03Check(c *caseCtx, g *genReq, d decision) {
	c.count("evaluations", 1)
	if !d.OK {
		c.count("rejected", 1)
		if methodFailed(d) {
			// the generated request is in the method's domain: failing inside Evaluate is not "ranking the alternatives"
			c.violate("method-failed:"+errClass(d.Err), "the method fails on an in-domain request instead of ranking: "+d.Err, M{"request": g.M})
		}
		return
	}
	ev := d.Trace.Eval
	if ev == nil {
		c.inconclusive("no evaluate event in trace")
		return
	}
	s := &ev.Before
	if !s.Params.OK {
		c.inconclusive("method parameters not readable: " + s.Params.Why)
		return
	}
	byId := map[string]respEntry{}
	for _, e := range d.View.Result {
		byId[e.Alternative.Id] = e
	}
	nb := len(d.Trace.Bias)
	if nb == 0 {
		// without biases the parameters the method evaluates with are the ones this request configures, bit for bit
		// (not those of an earlier request that looked alike)
		if w, ok := g.M["methodParameters"].(M)["weights"].(M); ok {
			for key, v := range w {
				want, isNum := v.(float64)
				if !isNum {
					continue
				}
				parts := strings.Split(key, ",")
				sort.Strings(parts)
				var got float64
				var has bool
				if g.method == "choquetIntegral" {
					got, has = s.Params.Choquet[strings.Join(parts, ",")]
				} else {
					got, has = s.Params.W[key]
				}
				if has && got != want {
					c.violate("parameters-not-as-configured", fmt.Sprintf("the request configures %v for '%s', the method evaluates with %v", want, key, got), M{"request": g.M})
					return
				}
			}
			c.count("parameters_as_configured", 1)
		}
	}
	for _, a := range s.Cons {
		e, ok := byId[a.Id]
		if !ok {
			c.violate("missing-entry", "considered alternative "+a.Id+" has no entry", M{"request": g.M})
			return
		}
		// the entry shows the values the method finally saw
		for k, v := range a.V {
			if e.Alternative.Criteria[k] != v {
				c.violate("entry-values", fmt.Sprintf("result entry %s/%s = %v but the method was given %v", a.Id, k, e.Alternative.Criteria[k], v), M{"request": g.M})
				return
			}
		}
		rep, isNum := e.Evaluation["value"].(float64)
		if !isNum {
			c.violate("no-value", "evaluation.value missing", M{"request": g.M, "entry": e})
			return
		}
		c.count("values_checked", 1)
		switch g.method {
		case "weightedSum":
			wv, uv, ok := refWeightedSum(s, a)
			if !ok {
				c.violate("params-incoherent", "no weight for a current criterion", M{"request": g.M})
				return
			}
			if apiClose(rep, wv) {
				c.count("weightedSum_equal_formula", 1)
				continue
			}
			if apiClose(rep, uv) {
				// the recorded defect: the signed values are summed, the weight is never applied
				c.count("weightedSum_unweighted", 1)
				if c.nviol == 0 {
					c.violate("weightedSum-unweighted", fmt.Sprintf("weightedSum of %s reports %v = unweighted signed sum; weighted sum is %v", a.Id, rep, wv),
						M{"request": g.M, "alternative": a, "weights": s.Params.W, "reported": rep, "weighted": wv, "unweighted": uv})
				}
				continue
			}
			c.violate("weightedSum-value", fmt.Sprintf("weightedSum of %s reports %v; weighted sum %v, unweighted %v", a.Id, rep, wv, uv),
				M{"request": g.M, "alternative": a, "weights": s.Params.W, "biases": nb})
			return
		case "owa":
			rv, ok := refOWA(s, a)
			if !ok {
				c.violate("params-incoherent", "number of OWA weights differs from the number of values", M{"request": g.M, "weights": s.Params.W, "alternative": a})
				return
			}
			if !apiClose(rep, rv) {
				c.violate("owa-value", fmt.Sprintf("owa of %s reports %v; sum of sorted weights x sorted values is %v", a.Id, rep, rv),
					M{"request": g.M, "alternative": a, "weights": s.Params.W, "biases": nb})
				return
			}
		case "choquetIntegral":
			rv, fragile, ok := refChoquet(s.Params.Choquet, a)
			if fragile {
				c.fragile()
				continue
			}
			if !ok {
				c.violate("params-incoherent", "capacity of a needed criteria set is missing", M{"request": g.M, "alternative": a})
				return
			}
			if !apiClose(rep, rv) {
				c.violate("choquet-value", fmt.Sprintf("choquet of %s reports %v; integral is %v", a.Id, rep, rv),
					M{"request": g.M, "alternative": a, "capacities": s.Params.Choquet, "biases": nb})
				return
			}
		}
	}
	fired := 0
	for _, b := range d.Trace.Bias {
		if !b.NilReport {
			fired++
		}
	}
	nontrivial := len(s.Crit) >= 2
	if nontrivial {
		c.count("nontrivial", 1)
		costs := 0
		for _, cr := range s.Crit {
			if cr.Cost {
				costs++
			}
		}
		// distinct: method, criteria count, cost count, biases fired, value fingerprint
		fp := 0.0
		for _, e := range d.View.Result {
			if v, ok := e.Evaluation["value"].(float64); ok {
				fp = fp*31 + v
			}
		}
		c.distinct(fmt.Sprintf("%s|%d|%d|%d|%v", g.method, len(s.Crit), costs, fired, fp))
	}
	if fired > 0 {
		c.count("after_fired_bias", 1)
	}
	if c.idx%1499 == 0 {
		c.sample(M{"request": g.M, "evaluated_on": s, "result": d.View.Result})
	}
}

func c03Random(c *caseCtx) {
	method := []string{"weightedSum", "owa", "choquetIntegral"}[c.idx%3]
	o := genOpts{method: method, nBiases: (c.idx / 3) % 4, minCrit: 1, maxCrit: 6, minAlt: 1, maxAlt: 5, negValues: true}
	if method == "choquetIntegral" {
		o.maxCrit = 5
	}
	g := genRequest(c.rng, o)
	if method != "choquetIntegral" && c.rng.Intn(3) == 0 {
		// negative weights are legal for the two weighted methods
		w := g.M["methodParameters"].(M)["weights"].(M)
		for k, v := range w {
			if c.rng.Intn(2) == 0 {
				w[k] = -v.(float64)
			}
		}
	}
	if method == "owa" && c.idx%16 == 10 {
		// weights that are unequal but closer than 1e-9, in no particular order, and values far apart: which weight meets
		// which value is visible well above the 1e-8 rounding
		w := g.M["methodParameters"].(M)["weights"].(M)
		ks := sortedKeysM(w)
		for i, pi := range c.rng.Perm(len(ks)) {
			w[ks[i]] = 0.4 + float64(pi)*5e-10
		}
		for _, a := range g.M["knownAlternatives"].([]interface{}) {
			cv := a.(M)["criteria"].(M)
			for k := range cv {
				cv[k] = float64(c.rng.Intn(2000)) - 500
			}
		}
		for _, cr := range g.M["criteria"].([]interface{}) {
			delete(cr.(M), "valuesRange")
		}
		c.count("near_equal_owa_weights", 1)
	}
	if c.idx%16 == 12 {
		mp := g.M["methodParameters"].(M)
		other := M{}
		for k := range mp["weights"].(M) {
			other[k] = float64(c.rng.Intn(9)) / 8
		}
		mp[[]string{"Weights", "WEIGHTS", "weightS"}[c.rng.Intn(3)]] = other // an unknown key: ignored like any other
		c.count("with_a_key_that_looks_like_weights", 1)
	}
	if c.idx%16 == 5 {
		// large magnitudes (1e6 .. 1e13 times the usual values): the 1e-8 rounding must not go through a narrower type
		f := math.Pow(10, float64(6+c.rng.Intn(8)))
		for _, a := range g.M["knownAlternatives"].([]interface{}) {
			cv := a.(M)["criteria"].(M)
			for k, v := range cv {
				cv[k] = v.(float64) * f
			}
		}
		for _, cr := range g.M["criteria"].([]interface{}) {
			if vr, ok := cr.(M)["valuesRange"].(M); ok {
				vr["min"], vr["max"] = numOr(vr, "min", 0)*f, numOr(vr, "max", 0)*f
			}
		}
		c.count("large_magnitude_requests", 1)
	}
	d := decide(g.body(), true)
	c03Check(c, g, d)
}

// near-tie values for Choquet (groups at 1e-5) and exact ties
func c03ChoquetTies(c *caseCtx) {
	g := genRequest(c.rng, genOpts{method: "choquetIntegral", profile: profDyadic, minCrit: 2, maxCrit: 5, minAlt: 2, maxAlt: 5, nBiases: c.idx % 2})
	for _, a := range g.M["knownAlternatives"].([]interface{}) {
		cv := a.(M)["criteria"].(M)
		base := quarter(c.rng, 0, 12)
		if c.idx%4 == 3 {
			// large values that differ by hundredths: far apart for the absolute 1e-5 grouping distance
			base = 2500 + float64(c.rng.Intn(3))
			for k := range cv {
				cv[k] = base + float64(c.rng.Intn(5))/100
			}
			continue
		}
		for k := range cv {
			switch c.rng.Intn(4) {
			case 0:
				cv[k] = base
			case 1:
				cv[k] = base + float64(c.rng.Intn(16))*1e-6 // around the 1e-5 grouping distance (chains a, a+6e-6, a+12e-6)
			case 2:
				cv[k] = base + 0.25
			}
		}
	}
	d := decide(g.body(), true)
	c03Check(c, g, d)
	if c.idx%4 == 2 && d.OK && len(d.Trace.Bias) == 0 {
		// the next request of the same process looks almost the same: every capacity moved by a few 1e-9 (less than any
		// "equal within tolerance" comparison would notice), values a thousand times larger
		w := g.M["methodParameters"].(M)["weights"].(M)
		for k, v := range w {
			x := v.(float64)
			step := float64(1+c.rng.Intn(8)) * 1e-9
			if x >= 0.5 {
				w[k] = x - step
			} else {
				w[k] = x + step
			}
		}
		for _, a := range g.M["knownAlternatives"].([]interface{}) {
			cv := a.(M)["criteria"].(M)
			for k, v := range cv {
				cv[k] = v.(float64) * 1000
			}
		}
		c.count("near_identical_followups", 1)
		c03Check(c, g, decide(g.body(), true))
	}
}

func init() {
	register(&propDef{
		id: "C03",
		rule: "weightedSum / owa / choquetIntegral requests with 1..6 criteria (Choquet: full power set, capacities multiples of 1/8 or random in [0,1]), gain/cost where " +
			"allowed, negative values and weights, 0..3 preceding biases; the reference formula is applied to the data the decorator saw entering Evaluate and compared " +
			"with every reported value (tolerance = the API's 1e-8 rounding). Non-trivial = >=2 criteria; distinct = distinct (method, #criteria, #cost, #fired biases, value fingerprint).",
		assumptions: []string{"unexported parameter structs are read through reflect+unsafe (layout change => inconclusive)",
			"Choquet values with a gap within 1% of the 1e-5 grouping distance are skipped as fragile"},
		streams: []*stream{
			{name: "random", n: tierN(36000, 900000), unit: 6000, run: c03Random, floors: map[string]int64{"values_checked": 20000, "after_fired_bias": 3000}},
			{name: "random-service", n: tierN(6000, 100000), unit: 3000, run: c03Random, service: true,
				note: "the same generator and oracle as the stream named in front of the dash, but every request goes through decideHandler of main.go in-process (gin binding, the handler's own request object) after a history of 1..3 unrelated requests (accepted and rejected)"},
			{name: "choquetTies", n: tierN(6000, 150000), unit: 3000, run: c03ChoquetTies, floors: map[string]int64{"values_checked": 5000}},
		},
	})
}
