package main

// C14 — generated aspiration levels follow the documented series and end. The iterator objects wired in
// main.go are driven directly (Find -> Initialize -> HasNext/Next) and compared with the series of the statement.

import (
	"fmt"
	"math"

	"github.com/Azbesciak/RealDecisionMaker/lib/logic/limited-rationality/satisfaction-levels"
	"github.com/Azbesciak/RealDecisionMaker/lib/model"
	"github.com/Azbesciak/RealDecisionMaker/lib/utils"
)

var c14Coefs = []float64{0.001, 0.01, 0.125, 0.25, 0.5, 0.75, 0.999}
var c14Bounds = []float64{0, 0.125, 0.25, 0.5, 0.75, 1}

type c14Run struct {
	levels   []model.Weights
	rejected string
	endless  bool
}

func c14Drive(fn string, increasing bool, params M, dmp *model.DecisionMakingParams) (r c14Run) {
	defer func() {
		if e := recover(); e != nil {
			r.rejected = fmt.Sprint(e)
		}
	}()
	srcs := decreasingSatisfactionLevels
	if increasing {
		srcs = increasingSatisfactionLevels
	}
	it := satisfaction_levels.Find(fn, params, srcs)
	it.Initialize(dmp)
	for it.HasNext() {
		if len(r.levels) >= 3000000 {
			r.endless = true
			return
		}
		r.levels = append(r.levels, it.Next())
	}
	return
}

func c14Case(c *caseCtx) {
	r := c.rng
	increasing := r.Intn(2) == 0
	fn := "idealMultipliedCoefficient"
	if r.Intn(2) == 0 {
		if increasing {
			fn = "idealAdditiveCoefficient"
		} else {
			fn = "idealSubtractiveCoefficient"
		}
	}
	dyadic := r.Intn(2) == 0
	pickv := func(grid []float64, lo, hi float64) float64 {
		if dyadic || r.Intn(2) == 0 {
			return grid[r.Intn(len(grid))]
		}
		return lo + r.Float64()*(hi-lo)
	}
	coef := pickv(c14Coefs, 0.001, 0.999)
	mn := pickv(c14Bounds, 0, 1)
	mx := pickv(c14Bounds, 0, 1)
	if r.Intn(5) == 0 {
		// decimal parameters: sums like 10 x 0.1 land a few ulps beside the bound
		coef = []float64{0.1, 0.2, 0.3, 0.05, 0.15, 0.35, 0.075, 0.9, 0.7}[r.Intn(9)]
		mn = []float64{0, 0.1, 0.2, 0.25, 0.3, 0.7}[r.Intn(6)]
		mx = []float64{1, 0.9, 0.8, 0.6}[r.Intn(4)]
	}
	if r.Intn(10) < 7 && mn > mx {
		mn, mx = mx, mn // most cases: a non-empty series
	}
	if !increasing && r.Intn(10) < 8 {
		if mn == 0 {
			mn = 0.0625
		}
		if mx == 0 {
			mx = 0.0625
		}
	}
	switch r.Intn(12) { // out-of-range parameters must be rejected
	case 0:
		coef = []float64{0, 1, -0.5, 1.5}[r.Intn(4)]
	case 1:
		mn = []float64{-0.125, 1.125}[r.Intn(2)]
	case 2:
		mx = []float64{-0.125, 1.125}[r.Intn(2)]
	}
	// decision problem: 1..3 criteria, ranges degenerate / negative / declared / observed
	nc := 1 + r.Intn(3)
	var crit model.Criteria
	var cs []critSnap
	na := 1 + r.Intn(4)
	cons := make([]model.AlternativeWithCriteria, 0)
	ncons := make([]model.AlternativeWithCriteria, 0)
	vals := make([]map[string]float64, na)
	for i := range vals {
		vals[i] = map[string]float64{}
	}
	for j := 0; j < nc; j++ {
		id := fmt.Sprintf("c%d", j)
		cr := model.Criterion{Id: id, Type: model.Gain}
		sn := critSnap{Id: id, Type: "gain"}
		if r.Intn(2) == 0 {
			cr.Type, sn.Cost, sn.Type = model.Cost, true, "cost"
		}
		kind := r.Intn(4)
		mag := 1.0
		if r.Intn(8) == 0 {
			mag = []float64{1e7, 1e9, 1e12, 1e-9}[r.Intn(4)] // yen, populations, bytes; nanometres
		}
		for i := 0; i < na; i++ {
			var v float64
			switch kind {
			case 0:
				v = 2.5 // degenerate
			case 1:
				v = -quarter(r, 0, 40)
			default:
				if dyadic {
					v = quarter(r, -8, 40)
				} else {
					v = r.Float64()*30 - 5
				}
			}
			vals[i][id] = v * mag
		}
		if kind == 2 {
			lo, hi := -16.0, 64.0
			if !dyadic {
				lo, hi = -7.3, 41.9
			}
			lo, hi = lo*mag, hi*mag
			cr.ValuesRange = &utils.ValueRange{Min: lo, Max: hi}
			sn.HasRng, sn.Lo, sn.Hi = true, lo, hi
		}
		crit = append(crit, cr)
		cs = append(cs, sn)
	}
	snap := dmpSnap{Crit: cs}
	for i := 0; i < na; i++ {
		a := model.AlternativeWithCriteria{Id: fmt.Sprintf("a%d", i), Criteria: model.Weights{}}
		for k, v := range vals[i] {
			a.Criteria[k] = v
		}
		as := altSnap{a.Id, vals[i]}
		if i == 0 || r.Intn(2) == 0 {
			cons = append(cons, a)
			snap.Cons = append(snap.Cons, as)
		} else {
			ncons = append(ncons, a)
			snap.NCons = append(snap.NCons, as)
		}
	}
	dmp := &model.DecisionMakingParams{ConsideredAlternatives: cons, NotConsideredAlternatives: ncons, Criteria: crit}
	params := M{"coefficient": coef, "minValue": mn, "maxValue": mx}
	run := c14Drive(fn, increasing, params, dmp)
	c.count("evaluations", 1)
	desc := M{"function": fn, "increasing": increasing, "params": params, "criteria": cs, "considered": snap.Cons, "notConsidered": snap.NCons}
	// documented parameter ranges
	valid := coef > 0 && coef < 1
	if increasing {
		valid = valid && mn >= 0 && mn <= 1 && mx >= 0 && mx <= 1
	} else {
		valid = valid && mn > 0 && mn <= 1 && mx > 0 && mx <= 1
	}
	if !valid {
		c.count("invalid_params", 1)
		if run.rejected == "" {
			c.violate("levels-accepted-invalid", fmt.Sprintf("out-of-range parameters accepted (%d levels generated)", len(run.levels)), desc)
		}
		return
	}
	if run.rejected != "" {
		c.violate("levels-rejected-valid", "parameters inside the documented ranges rejected: "+run.rejected, desc)
		return
	}
	if run.endless {
		c.violate("levels-endless", "the series did not end within 3,000,000 levels", desc)
		return
	}
	rs, _ := refSeries(fn, increasing, mn, mx, coef)
	// fragile: a ratio lands within 1e-12 of the stop bound without being equal to it
	bound := mx
	if !increasing {
		bound = mn
	}
	next := func(x float64) float64 {
		if increasing {
			if fn == "idealMultipliedCoefficient" {
				return math.Min((1+x)*(1+coef)-1, 1)
			}
			return math.Min(x+coef, 1)
		}
		if fn == "idealMultipliedCoefficient" {
			return x * coef
		}
		return math.Max(x-coef, 0)
	}
	x := mn
	if !increasing {
		x = mx
	}
	for i := 0; i <= len(rs); i++ {
		if d := math.Abs(x - bound); d != 0 && d < 1e-12 {
			c.fragile()
			return
		}
		x = next(x)
	}
	for i := 1; i < len(rs); i++ {
		if (increasing && !(rs[i] > rs[i-1])) || (!increasing && !(rs[i] < rs[i-1])) {
			// the statement's own series is not strictly monotone here (coefficient too small for float64): outside what is claimed
			c.count("outside_domain", 1)
			return
		}
	}
	if len(run.levels) != len(rs) {
		c.violate("levels-count", fmt.Sprintf("%d levels generated, the documented series has %d (ratios %v...)", len(run.levels), len(rs), head(rs, 6)), desc)
		return
	}
	ref := refLevelsFromSeries(&snap, rs)
	for i, lvl := range run.levels {
		if len(lvl) != len(cs) {
			c.violate("levels-criteria", fmt.Sprintf("level %d has %d thresholds for %d criteria", i, len(lvl), len(cs)), desc)
			return
		}
		for _, cr := range cs {
			lo, hi := snap.rng(cr)
			got, ok := lvl[cr.Id]
			if !ok || math.Abs(got-ref[i][cr.Id]) > 1e-9*(1+math.Abs(hi-lo)+math.Abs(lo)) {
				c.violate("levels-threshold", fmt.Sprintf("level %d criterion %s: threshold %v, documented %v (r=%v, range [%v,%v], cost=%v)", i, cr.Id, got, ref[i][cr.Id], rs[i], lo, hi, cr.Cost), desc)
				return
			}
		}
	}
	c.count("series_checked", 1)
	c.count("levels_checked", len(rs))
	if len(rs) == 0 {
		c.count("empty_series", 1)
	}
	if len(rs) >= 2 {
		c.count("nontrivial", 1)
		c.distinct(fmt.Sprintf("%s|%v|%v|%v|%v|%d", fn, increasing, coef, mn, mx, len(rs)))
	}
	if len(rs) > 0 && (rs[len(rs)-1] == 1 || rs[len(rs)-1] == 0) {
		c.count("clamped_at_bound", 1)
	}
	if c.idx%997 == 0 {
		c.sample(M{"case": desc, "ratios": head(rs, 12), "levels": len(rs)})
	}
}

// end to end: the thresholds and level indices the two heuristics report must be levels of the documented series
// (computed from the parameters and data the decorator saw entering Evaluate), also after biases
func c14EndToEnd(c *caseCtx) {
	method := []string{"aspectEliminationHeuristic", "satisfactionHeuristic"}[c.idx%2]
	increasing := method == "aspectEliminationHeuristic"
	g := genRequest(c.rng, genOpts{method: method, minAlt: 2, maxAlt: 6, minCrit: 1, maxCrit: 4, nBiases: c.idx % 3, negValues: c.rng.Intn(3) == 0, distinctW: true, dupChosen: true})
	mp := g.M["methodParameters"].(M)
	if mp["function"] == "thresholds" {
		genLevelsGenerated(c, mp, increasing)
	}
	invalid := c.rng.Intn(6) == 0
	if invalid {
		// out-of-range parameters are rejected - whatever the size of the considered set
		lp := mp["params"].(M)
		switch c.rng.Intn(4) {
		case 0:
			lp["coefficient"] = []float64{0, 1, -0.25, 1.5}[c.rng.Intn(4)]
		case 1:
			lp["minValue"] = []float64{-0.125, 1.125}[c.rng.Intn(2)]
		case 2:
			lp["maxValue"] = []float64{-0.125, 1.125}[c.rng.Intn(2)]
		case 3:
			if increasing {
				lp["maxValue"] = 1.5
			} else {
				lp["minValue"] = 0.0
			}
		}
		if c.rng.Intn(2) == 0 {
			g.M["choseToMake"] = g.M["choseToMake"].([]interface{})[:1]
			g.chose = g.chose[:1]
			if cc, ok := mp["currentChoice"].(string); ok && cc != g.chose[0] {
				delete(mp, "currentChoice")
			}
		}
		delete(g.M, "biases")
	}
	d := decide(g.body(), true)
	c.count("evaluations", 1)
	if invalid {
		c.count("e2e_invalid_params", 1)
		if d.OK {
			c.violate("levels-accepted-invalid", fmt.Sprintf("%s with out-of-range level parameters %v and %d considered alternative(s) is answered with a ranking", method, mp["params"], len(g.chose)), M{"request": g.M})
		}
		return
	}
	if !d.OK {
		c.count("rejected", 1)
		return
	}
	ev := d.Trace.Eval
	if ev == nil || !ev.Before.Params.OK || ev.Before.Params.Levels == nil {
		c.inconclusive("no readable evaluate event")
		return
	}
	s := &ev.Before
	lv := s.Params.Levels
	if msg := checkReceived(d); msg != "" {
		// the ranges are taken over all known alternatives of the request: the pipeline must have received them all
		c.violate("request-not-as-sent", "the levels are generated for other data than the request carries: "+msg, M{"request": g.M})
		return
	}
	if want := strOr(mp, "function", ""); lv.Fn != want {
		c.violate("levels-function", fmt.Sprintf("level function in force is '%s', the request configures '%s'", lv.Fn, want), M{"request": g.M})
		return
	}
	// the declared valuesRange of a criterion of the request is the range in force (it comes first)
	for _, cs := range g.crits {
		if cr, ok := s.crit(cs.id); ok && cr.Cost != cs.cost {
			c.violate("levels-declared-type", fmt.Sprintf("criterion %s is declared cost=%v; when the levels are generated it is cost=%v (the worst end is the other one)", cs.id, cs.cost, cr.Cost), M{"request": g.M})
			return
		}
		if cr, ok := s.crit(cs.id); ok && (cr.HasRng != cs.hasRng || (cs.hasRng && (cr.Lo != cs.lo || cr.Hi != cs.hi))) {
			c.violate("levels-declared-range", fmt.Sprintf("criterion %s declares the range %v [%v,%v]; the range in force when the levels are generated is %v [%v,%v]", cs.id, cs.hasRng, cs.lo, cs.hi, cr.HasRng, cr.Lo, cr.Hi), M{"request": g.M})
			return
		}
	}
	rs, ok := refSeries(lv.Fn, increasing, lv.MinValue, lv.MaxValue, lv.Coefficient)
	if !ok {
		c.count("outside_domain", 1)
		return
	}
	levels := refLevelsFromSeries(s, rs)
	if levelFragile(s, levels) {
		c.fragile()
		return
	}
	key := "satisfiedThresholds"
	if increasing {
		key = "notSatisfiedThreshold"
	}
	checked, closing := 0, 0
	for _, e := range d.View.Result {
		idxF, ok := e.Evaluation["thresholdsIndex"].(float64)
		if !ok {
			c.violate("levels-report", "thresholdsIndex missing", M{"request": g.M})
			return
		}
		idx := int(idxF)
		if idx < 0 || idx > len(levels) {
			c.violate("levels-count", fmt.Sprintf("%s reports level index %d, the documented series has %d levels (r = %v...)", e.Alternative.Id, idx, len(levels), head(rs, 6)), M{"request": g.M, "evaluated_on": s})
			return
		}
		th, _ := e.Evaluation[key].(map[string]interface{})
		if !increasing && idx == len(levels) && len(th) > 0 {
			// an alternative that meets no level of the series is reported with the closing level r = 0: every criterion
			// at its worst end (min for gain - also when the type is left to the default -, max for cost)
			for cid, tv := range th {
				cr, okc := s.crit(cid)
				t, okt := tv.(float64)
				if !okc || !okt {
					c.violate("levels-report", "reported threshold for an unknown criterion "+cid, M{"request": g.M})
					return
				}
				lo, hi := s.rng(cr)
				worst := lo
				if cr.Cost {
					worst = hi
				}
				if math.Abs(t-worst) > 1e-9*(1+math.Abs(hi-lo)+math.Abs(lo)) {
					c.violate("levels-closing", fmt.Sprintf("%s meets no generated level and reports threshold %v for %s; r = 0 measured from the worst end gives %v (range [%v,%v], cost=%v)", e.Alternative.Id, t, cid, worst, lo, hi, cr.Cost),
						M{"request": g.M, "evaluated_on": s})
					return
				}
				closing++
			}
			continue
		}
		if idx == len(levels) || len(th) == 0 {
			continue // survivor: no level of the series attached
		}
		for cid, tv := range th {
			cr, okc := s.crit(cid)
			t, okt := tv.(float64)
			if !okc || !okt {
				c.violate("levels-report", "reported threshold for an unknown criterion "+cid, M{"request": g.M})
				return
			}
			lo, hi := s.rng(cr)
			if math.Abs(t-levels[idx][cid]) > 1e-9*(1+math.Abs(hi-lo)+math.Abs(lo)) {
				c.violate("levels-threshold", fmt.Sprintf("%s reports threshold %v for %s at level %d; the documented series gives %v (r=%v, range [%v,%v], cost=%v, %s)", e.Alternative.Id, t, cid, idx, levels[idx][cid], rs[idx], lo, hi, cr.Cost, lv.Fn),
					M{"request": g.M, "evaluated_on": s})
				return
			}
			checked++
		}
	}
	c.count("reported_thresholds_checked", checked)
	c.count("closing_level_thresholds_checked", closing)
	if checked > 0 {
		c.count("nontrivial", 1)
		c.distinct(fmt.Sprintf("e2e|%s|%s|%v|%v|%v|%d", method, lv.Fn, lv.Coefficient, lv.MinValue, lv.MaxValue, len(d.Trace.Bias)))
	}
	if len(d.Trace.Bias) > 0 && checked > 0 {
		c.count("e2e_after_bias", 1)
	}
}

func genLevelsGenerated(c *caseCtx, mp M, increasing bool) {
	for mp["function"] == "thresholds" {
		genLevels(c.rng, mp, nil, increasing, profDyadic)
	}
}

func head(xs []float64, n int) []float64 {
	if len(xs) > n {
		return xs[:n]
	}
	return xs
}

func init() {
	register(&propDef{
		id: "C14",
		rule: "the four generated level sources wired in main.go, driven directly (Find, Initialize, HasNext/Next, cap 3e6 levels) on problems with 1..3 criteria whose ranges are " +
			"degenerate / negative / declared / observed, gain and cost; coefficient in {0.001,0.01,1/8,1/4,1/2,3/4,0.999} or random, min/max in {0,1/8,...,1} or random " +
			"(incl. min >= max), plus out-of-range parameters that must be rejected. Oracle: the series of the statement (count, every threshold, strict monotonicity, " +
			"end). Stream endToEnd: the thresholds / level indices reported by the two heuristics (also after biases) must be levels of the documented series for the " +
			"parameters and data Evaluate received. Non-trivial = series with >=2 levels / a checked reported threshold; distinct = (source, direction, coefficient, min, max, length).",
		assumptions: []string{"a case whose ratio comes within 1e-12 of the stop bound without being equal to it is fragile (skipped); dyadic parameters hit bounds exactly and are judged"},
		streams: []*stream{
			{name: "endToEnd-service", n: tierN(3000, 50000), unit: 1500, run: c14EndToEnd, service: true,
				note: "the same generator and oracle as the stream named in front of the dash, but every request goes through decideHandler of main.go in-process (gin binding, the handler's own request object) after a history of 1..3 unrelated requests (accepted and rejected)"},
			{name: "endToEnd", n: tierN(16000, 300000), unit: 4000, run: c14EndToEnd, floors: map[string]int64{"reported_thresholds_checked": 10000, "e2e_after_bias": 2000, "e2e_invalid_params": 1500},
				note: "aspect elimination / satisfaction requests with generated levels and 0..2 biases: every reported threshold and level index is checked against the documented series"},
			{name: "grid", n: tierN(20000, 400000), unit: 2500, run: c14Case, floors: map[string]int64{"series_checked": 10000, "invalid_params": 1000, "clamped_at_bound": 100, "empty_series": 100}},
		},
	})
}
