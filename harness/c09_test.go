package main

// C09 — decisions are stateless: inputs untouched, reports faithful, no history.

import (
	"bytes"
	"encoding/json"
	"fmt"
	"reflect"

	"github.com/Azbesciak/RealDecisionMaker/lib/model"
)

// faithfulness of what a bias reported at return against the same live objects at the end of the decision
func checkLateMutation(method string, tr *trace) []issue {
	var is []issue
	for _, e := range tr.Bias {
		if e.liveReport != nil {
			_, now := jsonM(e.liveReport)
			if !bytes.Equal(now, e.ReportJSON) {
				is = append(is, issue{"C09", "report-altered-later", fmt.Sprintf("the report of bias #%d %s changed after the bias returned (a later stage wrote into shared data)", e.Pos, e.Name)})
			}
		}
		if e.liveOut != nil {
			now := takeSnap(method, e.liveOut)
			if m := snapEqualData(&e.Out, &now); m != "" {
				is = append(is, issue{"C09", "handed-on-altered-later", fmt.Sprintf("the state bias #%d %s handed on changed afterwards: %s", e.Pos, e.Name, m)})
			} else if e.Out.Params.OK && now.Params.OK && !paramsSame(e.Out.Params, now.Params) {
				is = append(is, issue{"C09", "handed-on-altered-later", fmt.Sprintf("the method parameters bias #%d %s handed on changed afterwards (a later stage wrote into them)", e.Pos, e.Name)})
			}
		}
		if e.liveIn != nil {
			now := takeSnap(method, e.liveIn)
			if m := snapEqualData(&e.In, &now); m != "" {
				is = append(is, issue{"C09", "input-state-altered", fmt.Sprintf("the state bias #%d %s received was modified (by it or a later stage): %s", e.Pos, e.Name, m)})
			}
		}
		if e.liveOrig != nil {
			now := takeSnap(method, e.liveOrig)
			if m := snapEqualData(&e.Orig, &now); m != "" {
				is = append(is, issue{"C09", "original-state-altered", fmt.Sprintf("the original state was modified after bias #%d %s saw it: %s", e.Pos, e.Name, m)})
			}
		}
	}
	if tr.Eval != nil {
		if m := snapEqualData(&tr.Eval.Before, &tr.Eval.After); m != "" {
			is = append(is, issue{"C09", "evaluate-mutates", "the method modified the data it was given: " + m})
		} else if tr.Eval.Done && tr.Eval.Before.Params.OK && tr.Eval.After.Params.OK && !paramsSame(tr.Eval.Before.Params, tr.Eval.After.Params) {
			is = append(is, issue{"C09", "evaluate-mutates", "the method modified the parameters it was given"})
		}
	}
	return is
}

// reportMatchesData: what a value-writing bias reports is exactly what the next stage received
func checkReportVsData(tr *trace) []issue {
	var is []issue
	for _, e := range tr.Bias {
		if e.Report == nil {
			continue
		}
		add := func(sig, msg string) {
			is = append(is, issue{"C09", sig, fmt.Sprintf("bias #%d %s: %s", e.Pos, e.Name, msg)})
		}
		outBy := map[string]altSnap{}
		for _, a := range e.Out.all() {
			outBy[a.Id] = a
		}
		switch e.Name {
		case "criteriaOmission":
			// the criteria handed on are exactly the received ones minus the reported omitted ones
			om, _ := reportedCriteriaChanges(e)
			omitted := setOf(om)
			handed := map[string]bool{}
			for _, cr := range e.Out.Crit {
				handed[cr.Id] = true
				if omitted[cr.Id] {
					add("report-vs-data", fmt.Sprintf("criterion '%s' is reported omitted but was handed on", cr.Id))
					break
				}
			}
			for _, cr := range e.In.Crit {
				if !omitted[cr.Id] && !handed[cr.Id] {
					add("report-vs-data", fmt.Sprintf("criterion '%s' was not handed on although it is not reported omitted", cr.Id))
					break
				}
			}
		case "fatigue":
			for _, part := range []struct {
				key string
				as  []altSnap
			}{{"consideredAlternatives", e.Out.Cons}, {"notConsideredAlternatives", e.Out.NCons}} {
				l, _ := e.Report[part.key].([]interface{})
				if len(l) != len(part.as) {
					add("report-vs-data", fmt.Sprintf("%s lists %d alternatives, %d were handed on", part.key, len(l), len(part.as)))
					continue
				}
				for i, x := range l {
					xm, _ := x.(map[string]interface{})
					if strOr(xm, "id", "") != part.as[i].Id {
						add("report-vs-data", fmt.Sprintf("%s[%d] is '%v' but '%s' was handed on", part.key, i, xm["id"], part.as[i].Id))
						break
					}
					for k, v := range part.as[i].V {
						if r, ok := subM(xm, "criteria")[k].(float64); !ok || r != v {
							add("report-vs-data", fmt.Sprintf("%s %s/%s reported %v, handed on %v", part.key, part.as[i].Id, k, subM(xm, "criteria")[k], v))
							break
						}
					}
				}
			}
		case "preferenceReversal":
			l, _ := e.Report["reversedPreferenceCriteria"].([]interface{})
			for _, x := range l {
				xm, _ := x.(map[string]interface{})
				id := strOr(xm, "id", "")
				for aid, v := range subM(xm, "alternativesValues") {
					if o, ok := outBy[aid]; !ok || o.V[id] != v {
						add("report-vs-data", fmt.Sprintf("reported %s/%s = %v, handed on %v", aid, id, v, outBy[aid].V[id]))
						break
					}
				}
			}
		case "criteriaConcealment":
			l, _ := e.Report["addedCriteria"].([]interface{})
			for _, x := range l {
				xm, _ := x.(map[string]interface{})
				id := strOr(xm, "id", "")
				for aid, v := range subM(xm, "alternativesValues") {
					if o, ok := outBy[aid]; !ok || o.V[id] != v {
						add("report-vs-data", fmt.Sprintf("reported %s/%s = %v, handed on %v", aid, id, v, outBy[aid].V[id]))
						break
					}
				}
			}
		case "criteriaMixing":
			nc := subM(e.Report, "newCriterion")
			id := strOr(nc, "id", "")
			for aid, v := range subM(nc, "scaledValues") {
				if o, ok := outBy[aid]; !ok || o.V[id] != v {
					add("report-vs-data", fmt.Sprintf("reported %s/%s = %v, handed on %v", aid, id, v, outBy[aid].V[id]))
					break
				}
			}
		case "anchoring":
			ar := subM(e.Report, "applierResult")
			if ad, ok := ar["appliedDifferences"].([]interface{}); ok {
				inBy := map[string]altSnap{}
				for _, a := range e.In.all() {
					inBy[a.Id] = a
				}
				for _, x := range ad {
					xm, _ := x.(map[string]interface{})
					aid := strOr(xm, "id", "")
					for k, dv := range subM(xm, "criteria") {
						if d, ok := dv.(float64); !ok || d != outBy[aid].V[k]-inBy[aid].V[k] {
							add("report-vs-data", fmt.Sprintf("applied difference %s/%s reported %v, new - old = %v", aid, k, dv, outBy[aid].V[k]-inBy[aid].V[k]))
							break
						}
					}
				}
			}
			if l, ok := ar["addedCriteria"].([]interface{}); ok {
				for _, x := range l {
					xm, _ := x.(map[string]interface{})
					id := strOr(xm, "id", "")
					for aid, v := range subM(xm, "alternativesValues") {
						if o, ok := outBy[aid]; !ok || o.V[id] != v {
							add("report-vs-data", fmt.Sprintf("reported %s/%s = %v, handed on %v", aid, id, v, outBy[aid].V[id]))
							break
						}
					}
				}
			}
		}
	}
	return is
}

func c09Gen(c *caseCtx) *genReq {
	method := methods[c.idx%len(methods)]
	o := genOpts{method: method, nBiases: c.rng.Intn(4), minCrit: 1, maxCrit: 4, minAlt: 1, maxAlt: 5, negValues: c.rng.Intn(4) == 0, allFire: c.rng.Intn(2) == 0}
	if method == "choquetIntegral" {
		o.maxCrit = 6
	}
	// emphasis: every known alternative considered (internal slices shared, not copied)
	if c.rng.Intn(2) == 0 {
		o.allCons = 1
	}
	o.dupChosen = true
	g := genRequest(c.rng, o)
	if c.rng.Intn(12) == 0 {
		// optional fields left out / given as null: whatever default the library fills in, it does not write it into the
		// request (a request that is refused for it - Choquet wants "gain" spelled out - stays untouched as well)
		crit := g.M["criteria"].([]interface{})
		cr := crit[c.rng.Intn(len(crit))].(M)
		if c.rng.Intn(2) == 0 {
			delete(cr, "type")
		} else {
			cr["type"] = ""
		}
		c.count("criterion_type_left_out", 1)
	}
	// emphasis: heuristics with the current choice taken from choseToMake
	if (method == "majorityHeuristic" || method == "satisfactionHeuristic") && c.rng.Intn(2) == 0 {
		g.M["methodParameters"].(M)["currentChoice"] = g.chose[c.rng.Intn(len(g.chose))]
	}
	return g
}

func c09Trace(c *caseCtx) {
	g := c09Gen(c)
	body := g.body()
	dm, err := decodeRequest(body)
	twin, _ := decodeRequest(body)
	if err != nil {
		c.inconclusive("generated body does not decode")
		return
	}
	before, _ := json.Marshal(dm)
	tr := &trace{}
	d := decideDM(dm, tr)
	c.count("evaluations", 1)
	// (i) the request value handed to the library is untouched (also when the call panics)
	after, _ := json.Marshal(dm)
	if !reflect.DeepEqual(dm, twin) || !bytes.Equal(before, after) {
		c.violate("request-mutated", "MakeDecision modified the request value it was given", M{"request": g.M, "before": json.RawMessage(before), "after": json.RawMessage(after)})
		return
	}
	if !d.OK {
		c.count("rejected", 1)
		return
	}
	c.count("input_untouched_checked", 1)
	st := &eventStats{}
	var is []issue
	is = append(is, checkLateMutation(g.method, tr)...)
	is = append(is, checkReportVsData(tr)...)
	reportIssues(c, g, d, "C09", is, st)
	// the entries show the data the method finally received
	if tr.Eval != nil {
		byId := map[string]altSnap{}
		for _, a := range tr.Eval.Before.all() {
			byId[a.Id] = a
		}
		for _, e := range d.View.Result {
			a := byId[e.Alternative.Id]
			if len(a.V) != len(e.Alternative.Criteria) {
				c.violate("entry-vs-data", fmt.Sprintf("entry %s shows %d values, the method received %d", e.Alternative.Id, len(e.Alternative.Criteria), len(a.V)), M{"request": g.M})
				return
			}
			for k, v := range a.V {
				if e.Alternative.Criteria[k] != v {
					c.violate("entry-vs-data", fmt.Sprintf("entry %s/%s shows %v, the method received %v", e.Alternative.Id, k, e.Alternative.Criteria[k], v), M{"request": g.M})
					return
				}
			}
		}
	}
	// the pristine registries give the same bytes as the decorated ones (the monitor does not disturb)
	d0 := decide(body, false)
	c.count("evaluations", 1)
	if !d0.OK || !bytes.Equal(d0.JSON, d.JSON) {
		c.inconclusive("decorated and pristine registries disagree: " + d0.Err)
		return
	}
	if len(tr.Bias) > 0 {
		c.count("nontrivial", 1)
		c.count("late_mutation_checked_events", len(tr.Bias))
		shared := "sub"
		if len(tr.Bias[0].In.NCons) == 0 {
			shared = "all"
			c.count("all_considered", 1)
		}
		cc := currentKind(g)
		if cc == "considered" {
			c.count("current_from_considered", 1)
		}
		c.distinct(fmt.Sprintf("%s|%s|%s|%s", g.method, firedNames(tr), shared, cc))
	}
	if c.idx%2503 == 0 {
		c.sample(M{"request": g.M, "fired": firedNames(tr)})
	}
}

// histories: earlier results never change, and the response to a request is the same after any history
func c09History(c *caseCtx) {
	n := 2 + c.rng.Intn(12)
	if c.rng.Intn(6) == 0 {
		n = 30 + c.rng.Intn(21)
	}
	type kept struct {
		g     *genReq
		res   *model.DecisionMakerChoice
		bytes []byte
	}
	var hist []kept
	probe := c09Gen(c)
	first := decide(probe.body(), false)
	hst0, hb0 := httpInproc("POST", "/api/decide", probe.body())
	c.count("evaluations", 2)
	for i := 0; i < n; i++ {
		g := c09Gen(c)
		if c.rng.Intn(8) == 0 {
			g.M["preferenceFunction"] = "noSuchMethod" // rejected requests are part of a history too
		} else if c.rng.Intn(4) == 0 {
			g = c02Gen(c.rng, c.rng.Intn(70)) // incl. requests violating one documented constraint each (all error paths)
		}
		d := decide(g.body(), false)
		c.count("evaluations", 1)
		if d.OK {
			hist = append(hist, kept{g, d.Choice, d.JSON})
		}
		if i%2 == 0 { // the same history also passes through the service handler of main.go
			httpInproc("POST", "/api/decide", g.body())
		}
	}
	again := decide(probe.body(), false)
	hst1, hb1 := httpInproc("POST", "/api/decide", probe.body())
	c.count("evaluations", 2)
	if hst0 != hst1 || (hst0 == 200 && !bytes.Equal(hb0, hb1)) || (first.OK && hst0 == 200 && !bytes.Equal(hb0, first.JSON)) {
		c.violate("history-dependent", fmt.Sprintf("the service handler's response to a request changed after %d other requests (or differs from the library's)", n), M{"request": probe.M, "history_length": n, "before": string(hb0), "after": string(hb1)})
		return
	}
	if first.OK != again.OK || (first.OK && !bytes.Equal(first.JSON, again.JSON)) {
		c.violate("history-dependent", fmt.Sprintf("the response to a request changed after %d other requests", n), M{"request": probe.M, "history_length": n})
		return
	}
	for i, k := range hist {
		now, _ := json.Marshal(k.res)
		if !bytes.Equal(now, k.bytes) {
			c.violate("earlier-result-modified", fmt.Sprintf("the result returned for request %d of the history changed after later calls", i), M{"request": k.g.M, "history_length": n})
			return
		}
	}
	if first.OK {
		now, _ := json.Marshal(first.Choice)
		if !bytes.Equal(now, first.JSON) {
			c.violate("earlier-result-modified", "the first result changed after later calls", M{"request": probe.M})
			return
		}
	}
	c.count("histories_checked", 1)
	c.count("earlier_results_rechecked", len(hist))
	c.count("nontrivial", 1)
	c.distinct(fmt.Sprintf("hist|%d|%s|%d", n, probe.method, len(hist)))
}

// stripOptional removes optional fields so that the request relies on the documented defaults
func stripOptional(g *genReq) {
	mp := g.M["methodParameters"].(M)
	delete(mp, "drawResolution")
	bs, _ := g.M["biases"].([]interface{})
	for _, b := range bs {
		p, _ := b.(M)["props"].(M)
		delete(p, "ordering")
		delete(p, "referenceCriterionType")
		delete(p, "ReferenceCriterionType")
		if ap := subM(subM(p, "applier"), "params"); ap != nil {
			delete(ap, "referenceCriterionType")
			delete(ap, "ReferenceCriterionType")
		}
	}
}

// error paths: a request that violates one documented constraint is rejected - and must leave no trace: the same
// default-relying probe requests are answered with the same bytes before and after it (library and service handler)
func c09ErrorPaths(c *caseCtx) {
	cst := constraints[c.idx%len(constraints)]
	ms := cst.methods
	if ms == nil {
		ms = methods
	}
	method := ms[(c.idx/len(constraints))%len(ms)]
	var probes []*genReq
	for i := 0; i < 14; i++ {
		g := genRequest(c.rng, genOpts{method: methods[i%len(methods)], nBiases: 1 + c.rng.Intn(2), minCrit: 2, maxCrit: 4, minAlt: 2, maxAlt: 4, allFire: true})
		stripOptional(g)
		probes = append(probes, g)
	}
	type ans struct {
		lib, http []byte
		ok        bool
		st        int
	}
	ask := func() []ans {
		out := make([]ans, len(probes))
		for i, g := range probes {
			d := decide(g.body(), false)
			st, hb := httpInproc("POST", "/api/decide", g.body())
			out[i] = ans{d.JSON, hb, d.OK, st}
			c.count("evaluations", 2)
		}
		return out
	}
	before := ask()
	bad := validBase(method, c.rng)
	cst.apply(bad.M)
	decide(bad.body(), false)
	httpInproc("POST", "/api/decide", bad.body())
	c.count("evaluations", 2)
	after := ask()
	for i := range probes {
		if before[i].ok != after[i].ok || !bytes.Equal(before[i].lib, after[i].lib) || before[i].st != after[i].st || (before[i].st == 200 && !bytes.Equal(before[i].http, after[i].http)) {
			c.violate("history-dependent", fmt.Sprintf("after a request rejected for '%s' (%s) a valid request relying on defaults is answered differently", cst.name, method),
				M{"rejected_request": bad.M, "probe": probes[i].M, "before": string(before[i].lib), "after": string(after[i].lib)})
			return
		}
	}
	c.count("error_paths_checked", 1)
	c.count("nontrivial", 1)
	c.distinct("err|" + cst.name + "|" + method)
}

func init() {
	register(&propDef{
		id: "C09",
		rule: "stream trace: 7 methods x 0..3 biases with emphasis on heuristics whose currentChoice is taken from choseToMake, on choseToMake = all known alternatives and on " +
			"JSON-decoded slices (spare capacity): the decoded request is compared deeply and byte-wise before / after MakeDecision; at the end of the decision every bias " +
			"report, every handed-on state, every received state and the original state are re-snapshotted through the live pointers the decorators kept and must equal the " +
			"snapshots taken at return; reports must equal the data handed on; Evaluate must leave its input unchanged; result entries show the data the method received. " +
			"Stream history: histories of 2..50 requests (incl. rejected ones): the probe request's bytes are unchanged afterwards and every earlier returned result " +
			"re-marshals to the same bytes. Stream errorPaths: every kind of rejected request of the constraint catalogue between two rounds of default-relying probes. Non-trivial = >=1 fired bias / every history; distinct = (method, fired names, all-considered, currentChoice kind) / (history length, method).",
		assumptions: []string{"deep snapshots are taken by the decorators at the seam; the pristine registries must produce the same bytes as the decorated ones (else inconclusive)"},
		streams: []*stream{
			{name: "trace", n: tierN(35000, 700000), unit: 3500, run: c09Trace,
				floors: map[string]int64{"input_untouched_checked": 30000, "late_mutation_checked_events": 20000, "all_considered": 5000, "current_from_considered": 2000}},
			{name: "errorPaths", n: func(string) int { return len(constraints) * 3 }, unit: 20, run: c09ErrorPaths, floors: map[string]int64{"error_paths_checked": 150},
				note: "every entry of the constraint catalogue (C20) x 3 methods: 14 default-relying probe requests before and after the rejected request"},
			{name: "history", n: tierN(1200, 24000), unit: 150, run: c09History, floors: map[string]int64{"histories_checked": 1000, "earlier_results_rechecked": 5000}},
		},
	})
}
